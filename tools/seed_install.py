#!/venv/bin/python
"""tools/seed_install.py <staging dir> <origin label>  - copy evaluated, CONFIRMED seeded changes into /verif/seeded/<id>/
(patch.diff, demo.py, notes.md, meta.json).  A change is confirmed when the repository's tests pass with it, its
demonstration passes without it and fails with it."""
import json
import os
import re
import shutil
import sys

VERIF = os.path.dirname(os.path.dirname(os.path.abspath(__file__)))


def needs(notes):
    m = re.search(r"(?is)(#+[^\n]*(need|manifest|trigger)[^\n]*\n)(.+?)(\n#+ |\Z)", notes)
    txt = m.group(3) if m else notes
    return " ".join(txt.split())[:900]


def main():
    staging, origin = os.path.abspath(sys.argv[1]), sys.argv[2]
    out = []
    for n in sorted(os.listdir(staging)):
        d = os.path.join(staging, n)
        ev = os.path.join(d, "eval.json")
        if not os.path.exists(ev):
            continue
        e = json.load(open(ev))
        confirmed = e.get("demo_clean_rc") == 0 and e.get("tests_rc") == 0 and e.get("demo_mutant_rc") not in (0, None)
        if not confirmed:
            print("NOT CONFIRMED", n, {k: e.get(k) for k in ("demo_clean_rc", "tests_rc", "demo_mutant_rc")})
            continue
        dst = os.path.join(VERIF, "seeded", n)
        os.makedirs(dst, exist_ok=True)
        for f in ("patch.diff", "demo.py", "notes.md"):
            if os.path.exists(os.path.join(d, f)):
                shutil.copy(os.path.join(d, f), os.path.join(dst, f))
        notes = open(os.path.join(d, "notes.md")).read() if os.path.exists(os.path.join(d, "notes.md")) else ""
        prop = n.split("-")[0] if n[0] == "C" else None
        meta = {
            "id": n,
            "breaks_property": prop or e.get("property", "see notes"),
            "origin": origin,
            "needs_to_manifest": needs(notes),
            "confirmed": {
                "tests_with_change": e.get("tests_tail"),
                "demo_without_change_rc": e.get("demo_clean_rc"),
                "demo_with_change_rc": e.get("demo_mutant_rc"),
                "how": "tools/seed_eval.py <dir> --repo <scratch worktree of /repo>: git apply patch.diff; /venv/bin/python -m pytest -q -p no:cacheprovider; PYTHONPATH=<worktree> /venv/bin/python demo.py; bin/check <ID> --tier quick with LABREA_REPO=<worktree>; git checkout",
            },
            "checks_run_quick": {c: {"exit": r["rc"], "violations": r["violations"], "first": r.get("first", "")} for c, r in e.get("checks", {}).items()},
            "caught_by": e.get("caught_by", []),
        }
        if e.get("before_strengthening"):
            # quick checks run against the change BEFORE the checks were extended in response to it
            meta["checks_run_quick_before_strengthening"] = e["before_strengthening"]
        json.dump(meta, open(os.path.join(dst, "meta.json"), "w"), indent=1)
        out.append((n, meta["caught_by"]))
    for n, c in out:
        print(n, c)


if __name__ == "__main__":
    main()
