#!/bin/bash
# usage: tools/run_all.sh [quick|thorough] [IDs...]   - runs checks one after the other, prints rc and wall time
TIER=${1:-quick}; shift || true
IDS=${@:-C01 C02 C03 C04 C05 C06 C07 C08 C09 C10 C11 C12 C13 C14 C15 C16 C17 C18 C19 C20}
cd "$(dirname "$0")/.."
for c in $IDS; do
  s=$(date +%s.%N)
  out=$(bin/check $c --tier $TIER 2>&1); rc=$?
  e=$(date +%s.%N)
  printf "%s rc=%s wall=%.1fs viol=%s known=%s\n" $c $rc $(echo "$e - $s" | bc) $(echo "$out" | grep -c '^VIOLATION') $(echo "$out" | grep -c '^KNOWN-FINDING')
done
