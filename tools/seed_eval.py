#!/venv/bin/python
"""Evaluate one seeded change: tools/seed_eval.py <dir with patch.diff + demo.py> [--checks C01,C05] [--tier quick]

1. /repo must be clean; demo.py must pass (exit 0) on the clean tree;
2. apply patch.diff to /repo; the repository's own tests must pass; demo.py must fail;
3. run the given checks (default: all 20) and record exit code / first violation line;
4. revert /repo (always).
Prints a JSON summary and writes it to <dir>/eval.json.
"""
import json
import os
import subprocess
import sys
import time

REPO = "/repo"
for _i, _a in enumerate(sys.argv):
    if _a == "--repo":
        REPO = os.path.abspath(sys.argv[_i + 1])  # a scratch worktree; the checks import labrea from LABREA_REPO
VERIF = os.path.dirname(os.path.dirname(os.path.abspath(__file__)))
ALL = [f"C{i:02d}" for i in range(1, 21)]


def sh(cmd, cwd=None, env=None, timeout=3600):
    p = subprocess.run(cmd, shell=True, cwd=cwd, env=env, capture_output=True, text=True, timeout=timeout)
    return p.returncode, p.stdout + p.stderr


def main():
    d = os.path.abspath(sys.argv[1])
    checks = ALL
    tier = "quick"
    for i, a in enumerate(sys.argv):
        if a == "--checks":
            checks = sys.argv[i + 1].split(",")
        if a == "--tier":
            tier = sys.argv[i + 1]
    patch = os.path.join(d, "patch.diff")
    demo = os.path.join(d, "demo.py")
    out = {"dir": d, "tier": tier}
    rc, o = sh("git diff --quiet && git diff --cached --quiet", cwd=REPO)
    if rc != 0:
        print("refusing: /repo is dirty")
        return 2
    env = dict(os.environ)
    env["PYTHONPATH"] = REPO
    env["PYTHONDONTWRITEBYTECODE"] = "1"
    env["LABREA_REPO"] = REPO
    os.environ["LABREA_REPO"] = REPO
    rc, o = sh(f"/venv/bin/python {demo}", cwd=REPO, env=env, timeout=600)
    out["demo_clean_rc"] = rc
    if rc != 0:
        out["demo_clean_output"] = o[-800:]
    rc, o = sh(f"git apply {patch}", cwd=REPO)
    if rc != 0:
        out["apply_failed"] = o[-500:]
        print(json.dumps(out, indent=1))
        return 2
    try:
        rc, o = sh("/venv/bin/python -m pytest -q -p no:cacheprovider", cwd=REPO, timeout=900)
        out["tests_rc"] = rc
        out["tests_tail"] = o.strip().splitlines()[-1] if o.strip() else ""
        rc, o = sh(f"/venv/bin/python {demo}", cwd=REPO, env=env, timeout=600)
        out["demo_mutant_rc"] = rc
        out["demo_mutant_tail"] = o.strip()[-400:]
        res = {}
        for c in checks:
            t0 = time.time()
            rc, o = sh(f"bin/check {c} --tier {tier}", cwd=VERIF, env=env, timeout=7200)
            first = ""
            for line in o.splitlines():
                if line.strip().startswith("what:"):
                    first = line.strip()[:260]
                    break
            res[c] = {"rc": rc, "violations": sum(1 for l in o.splitlines() if l.startswith("VIOLATION")), "first": first, "wall_s": round(time.time() - t0, 1)}
            if rc == 2:
                res[c]["harness"] = o[-600:]
            if rc == 1 and "--until-caught" in sys.argv:
                break  # the remaining checks were not run (recorded as such in eval.json)
        out["checks"] = res
        out["checks_not_run"] = [c for c in checks if c not in res]
        out["caught_by"] = [c for c, r in res.items() if r["rc"] == 1]
    finally:
        sh("git checkout -- labrea tests && git clean -fdq labrea tests", cwd=REPO)
    with open(os.path.join(d, "eval.json"), "w") as f:
        json.dump(out, f, indent=1)
    brief = {k: out.get(k) for k in ("demo_clean_rc", "tests_rc", "tests_tail", "demo_mutant_rc", "caught_by")}
    print(json.dumps(brief))
    return 0


if __name__ == "__main__":
    sys.exit(main())
