#!/venv/bin/python
"""Regenerate MANIFEST.json from the check modules that exist (and validate it)."""
import importlib
import json
import os
import sys

HERE = os.path.dirname(os.path.dirname(os.path.abspath(__file__)))
sys.path.insert(0, HERE)
sys.path.insert(0, "/repo")

ALL = [f"C{i:02d}" for i in range(1, 21)]
NOT_BUILT_REASON = "check not built yet in this session (planned in DESIGN.md section 2)"
NA = {}  # property -> reason, for properties that are genuinely not decided by model checking


def main():
    checks = []
    na = []
    for pid in ALL:
        path = os.path.join(HERE, "labmc", "checks", pid.lower() + ".py")
        if pid in NA:
            na.append({"property_id": pid, "reason": NA[pid]})
            continue
        if not os.path.exists(path):
            na.append({"property_id": pid, "reason": NOT_BUILT_REASON})
            continue
        mod = importlib.import_module(f"labmc.checks.{pid.lower()}")
        checks.append(
            {
                "property_id": pid,
                "quick_cmd": f"bin/check {pid} --tier quick",
                "thorough_cmd": f"bin/check {pid} --tier thorough",
                "evidence_file": f"/verif/evidence/{pid}.json",
                "replay_cmd_template": f"bin/check {pid} --replay {{path}}",
                "engine": getattr(mod, "ENGINE", "labmc"),
                "level_claimed": {
                    "category": mod.LEVEL,
                    "text": getattr(mod, "LEVEL_TEXT", mod.RULE),
                    "design_ref": f"DESIGN.md section 2 ({pid})",
                },
                "level_note": "; ".join(getattr(mod, "ASSUMPTIONS", [])) or "bounded alphabets as stated in the evidence rule",
                "technique": mod.TECHNIQUE,
            }
        )
    man = {
        "version": 1,
        "setup_cmd": "true",
        "hooks": {
            "guard": "LABREA_VERIF",
            "enable": "no source hooks: the harness swaps locks / caches / handlers by assignment; LABREA_VERIF=1 is exported by bin/check but read by nothing in /repo",
            "baseline_off_cmd": "cd /repo && /venv/bin/python -m pytest -ra -q -p no:cacheprovider --timeout=900 --continue-on-collection-errors",
            "source_commits": [],
            "add_only": True,
        },
        "engines": [
            {
                "name": "labmc",
                "path": "/verif/labmc",
                "serves_properties": [c["property_id"] for c in checks],
                "kind_free_text": "hand-written explicit-state / exhaustive-enumeration explorer in Python that executes the real labrea objects from /repo (terms-as-data builder, reference interpreter, BFS over cache/overload/runtime states, preemption-bounded thread scheduler)",
            }
        ],
        "checks": checks,
        "notes": "All checks import labrea from /repo's working tree at run time (asserted), nothing is built or cached. known_findings.json lists recorded genuine defects; see DESIGN.md.",
        "not_applicable": na,
    }
    with open(os.path.join(HERE, "MANIFEST.json"), "w") as f:
        json.dump(man, f, indent=1)
    try:
        import jsonschema

        sch = json.load(open(os.path.join(HERE, "schemas", "MANIFEST.schema.json")))
        jsonschema.validate(man, sch)
        print("MANIFEST.json valid;", len(checks), "checks,", len(na), "not applicable")
    except ImportError:
        print("jsonschema missing; not validated")


if __name__ == "__main__":
    main()
