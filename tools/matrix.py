#!/venv/bin/python
"""Print the detection matrix (markdown) from /verif/seeded/*/meta.json."""
import json
import os
import re

VERIF = os.path.dirname(os.path.dirname(os.path.abspath(__file__)))


def title(d):
    p = os.path.join(d, "notes.md")
    if not os.path.exists(p):
        return ""
    for line in open(p):
        line = line.strip().lstrip("#").strip()
        if len(line) > 15:
            return re.sub(r"\s+", " ", line)[:150].replace("|", "/")
    return ""


def main():
    rows = []
    root = os.path.join(VERIF, "seeded")
    for n in sorted(os.listdir(root)):
        mp = os.path.join(root, n, "meta.json")
        if not os.path.exists(mp):
            continue
        m = json.load(open(mp))
        files = sorted(set(re.findall(r"^\+\+\+ b/(\S+)", open(os.path.join(root, n, "patch.diff")).read(), re.M)))
        rows.append((n, m["breaks_property"], ", ".join(f.replace("labrea/", "") for f in files), title(os.path.join(root, n)), ", ".join(m["caught_by"]) or "**none**"))
    print("| seeded change | property | file(s) | what it does (first line of its notes) | reported by (quick tier) |")
    print("|---|---|---|---|---|")
    for r in rows:
        print("| " + " | ".join(r) + " |")
    caught = sum(1 for r in rows if r[4] != "**none**")
    print(f"\n{caught} of {len(rows)} seeded changes are reported by at least one check.")


if __name__ == "__main__":
    main()
