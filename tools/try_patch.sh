#!/bin/bash
# usage: tools/try_patch.sh <patch.diff> [--no-tests] <CHECK-ID>...
# applies the patch to /repo, runs the repo's tests (must pass), runs the given
# checks (quick), reverts the patch.  Prints one line per check.
set -u
PATCH="$(realpath "$1")"; shift
RUNTESTS=1
if [ "${1:-}" = "--no-tests" ]; then RUNTESTS=0; shift; fi
cd /repo
if ! git diff --quiet; then echo "repo dirty, refusing"; exit 2; fi
git apply "$PATCH" || { echo "patch does not apply"; exit 2; }
trap 'cd /repo && git checkout -- . && git clean -fdq labrea tests 2>/dev/null' EXIT
if [ $RUNTESTS = 1 ]; then
  T=$(/venv/bin/python -m pytest -q -p no:cacheprovider -x 2>&1 | tail -1)
  echo "tests: $T"
fi
cd /verif
for c in "$@"; do
  OUT=$(bin/check "$c" --tier ${TIER:-quick} 2>&1)
  rc=$?
  nv=$(echo "$OUT" | grep -c "^VIOLATION")
  echo "$c rc=$rc violations=$nv $(echo "$OUT" | grep -m1 'what:' | cut -c1-220)"
done
