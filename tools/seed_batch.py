#!/venv/bin/python
"""tools/seed_batch.py <staging dir> [--all]  - evaluate every <staging>/<name>/ (patch.diff + demo.py) in parallel over
scratch worktrees /tmp/wt/eval1..3, with the checks related to the mutant's property (or all with --all)."""
import json
import os
import queue
import subprocess
import sys
import threading

RELATED = {
    "C01": "C01,C02,C03,C10", "C02": "C02,C01,C16,C03", "C03": "C03,C01,C09,C19", "C04": "C04,C09,C10,C06,C20", "C05": "C05,C06,C07,C12",
    "C06": "C06,C05,C10,C04,C12", "C07": "C07,C05,C01", "C08": "C08,C01,C03,C05", "C09": "C09,C03,C04,C11", "C10": "C10,C11,C01,C18,C19,C04",
    "C11": "C11,C10,C03,C09", "C12": "C12,C10,C01", "C13": "C13,C05", "C14": "C14,C15,C16", "C15": "C15,C14,C01",
    "C16": "C16,C02,C01", "C17": "C17,C01,C12", "C18": "C18,C05,C14,C16", "C19": "C19,C03", "C20": "C20,C07",
}
ALL = ",".join(f"C{i:02d}" for i in range(1, 21))


def main():
    staging = os.path.abspath(sys.argv[1])
    use_all = "--all" in sys.argv
    names = sorted(n for n in os.listdir(staging) if os.path.exists(os.path.join(staging, n, "patch.diff")))
    only = [a for a in sys.argv[2:] if not a.startswith("--")]
    if only:
        names = [n for n in names if n in only]
    q = queue.Queue()
    for n in names:
        if os.path.exists(os.path.join(staging, n, "eval.json")) and "--force" not in sys.argv:
            continue
        q.put(n)
    lock = threading.Lock()

    def worker(wt):
        while True:
            try:
                n = q.get_nowait()
            except queue.Empty:
                return
            prop = n.split("-")[0]
            checks = ALL if use_all else RELATED.get(prop, ALL)
            override = os.path.join(staging, n, "checks.txt")
            if os.path.exists(override) and not use_all:
                checks = open(override).read().strip()
            p = subprocess.run([sys.executable, os.path.join(os.path.dirname(__file__), "seed_eval.py"), os.path.join(staging, n), "--repo", wt, "--checks", checks] + (["--until-caught"] if "--until-caught" in sys.argv else []),
                               capture_output=True, text=True)
            with lock:
                print(n, p.stdout.strip().splitlines()[-1] if p.stdout.strip() else p.stderr[-300:], flush=True)

    ts = [threading.Thread(target=worker, args=(f"/tmp/wt/eval{k}",)) for k in (1, 2, 3)]
    for t in ts:
        t.start()
    for t in ts:
        t.join()


if __name__ == "__main__":
    main()
