"""Controlled thread scheduler: stateless, preemption-bounded exploration of the
real code under real threading.Thread objects.

Exactly one thread runs at a time (a semaphore baton per thread).  Scheduling
points are
  * every bytecode inside the *opcode targets* (code objects),
  * every line inside the *line targets*,
  * the entry of the *call targets*,
  * every acquire of a scheduler-aware lock (SLock) that replaces a real lock.
At a point the scheduler takes the next choice of the prefix being replayed, or
choice 0 (keep running the current thread if it is enabled, else the lowest
enabled id).  ``explore`` enumerates all choice sequences whose number of
preemptions (switching away from a thread that is still enabled) is within the
bound, CHESS-style.
"""
import sys
import threading

HANG_TIMEOUT = 8.0


class HarnessFault(Exception):
    pass


class Deadlock(Exception):
    pass


class SLock:
    """Drop-in for threading.Lock under the scheduler."""

    def __init__(self, sched, name="lock", point=True):
        self.sched = sched
        self.owner = None
        self.name = name
        self.point_on_acquire = point

    def acquire(self, blocking=True, timeout=-1):
        s = self.sched
        me = s.current_id()
        if me is None:  # not under the scheduler (setup code)
            self.owner = "setup"
            return True
        if self.point_on_acquire:
            s.point(("acquire", self.name))
        while self.owner is not None:
            s.block(me, self)
        self.owner = me
        return True

    def release(self):
        self.owner = None
        self.sched.wake(self)

    def locked(self):
        return self.owner is not None

    __enter__ = acquire

    def __exit__(self, *a):
        self.release()


class SEvent:
    """Drop-in for threading.Event under the scheduler: a thread waiting for an event that is not set
    is disabled until some thread sets it.  A timeout only matters when nothing else can run: it then
    expires (wait returns False) instead of counting as a deadlock."""

    def __init__(self, sched, name="event"):
        self.sched = sched
        self.name = name
        self._flag = False

    def is_set(self):
        return self._flag

    isSet = is_set

    def set(self):
        self._flag = True
        self.sched.wake(self)

    def clear(self):
        self._flag = False

    def wait(self, timeout=None):
        s = self.sched
        me = s.current_id()
        if me is None:
            return self._flag
        s.point(("wait", self.name))
        while not self._flag:
            if timeout is not None and not [t for t in s._enabled() if t != me]:
                return False  # nothing else can run: the timeout expires
            s.block(me, self)
        return True


class SCondition:
    """Drop-in for threading.Condition under the scheduler (wait / notify / notify_all on an SLock)."""

    def __init__(self, sched, lock=None, name="condition"):
        self.sched = sched
        self.lock = lock if lock is not None else SLock(sched, name + ".lock")
        self.name = name
        self._tickets = []

    def acquire(self, *a, **k):
        return self.lock.acquire(*a, **k)

    def release(self):
        return self.lock.release()

    def __enter__(self):
        return self.lock.acquire()

    def __exit__(self, *a):
        self.lock.release()

    def wait(self, timeout=None):
        s = self.sched
        me = s.current_id()
        if me is None:
            return True
        ticket = SEvent(s, self.name + ".ticket")
        self._tickets.append(ticket)
        self.lock.release()
        ok = ticket.wait(timeout)
        self.lock.acquire()
        if not ok and ticket in self._tickets:
            self._tickets.remove(ticket)
        return ok

    def wait_for(self, predicate, timeout=None):
        r = predicate()
        while not r:
            if not self.wait(timeout) and timeout is not None:
                return predicate()
            r = predicate()
        return r

    def notify(self, n=1):
        for t in self._tickets[:n]:
            t.set()
        del self._tickets[:n]

    def notify_all(self):
        self.notify(len(self._tickets))

    notifyAll = notify_all


class Scheduler:
    def __init__(self, prefix=(), opcode_targets=(), line_targets=(), call_targets=(), horizon=20000,
                 opcode_files=(), line_files=()):
        self.prefix = list(prefix)
        self.opcode_targets = set(opcode_targets)
        self.line_targets = set(line_targets)
        # whole source files: every function defined in them (also ones added later) is a target
        self.opcode_files = set(opcode_files)
        self.line_files = set(line_files)
        self.call_targets = set(call_targets)
        self.horizon = horizon
        self.threads = []  # dicts: id, fn, sem, thread, done, blocked_on, exc, result
        self.running = None
        self.points = []  # (n_enabled, running_enabled, chosen_index)
        self.choices = []
        self.step = 0
        self.fault = None
        self.deadlock = False
        self._ident = {}
        self.done_evt = threading.Event()

    # -- setup -------------------------------------------------------------
    def spawn(self, fn, name=None):
        tid = len(self.threads)
        rec = {"id": tid, "fn": fn, "sem": threading.Semaphore(0), "done": False, "blocked_on": None, "exc": None,
               "result": None, "name": name or f"t{tid}"}
        rec["thread"] = threading.Thread(target=self._body, args=(rec,), name=rec["name"], daemon=True)
        self.threads.append(rec)
        return rec

    def lock(self, name="lock", point=True):
        return SLock(self, name, point)

    def event(self, name="event"):
        return SEvent(self, name)

    def condition(self, lock=None, name="condition"):
        return SCondition(self, lock, name)

    def current_id(self):
        return self._ident.get(threading.get_ident())

    # -- thread body ---------------------------------------------------------
    def _body(self, rec):
        self._ident[threading.get_ident()] = rec["id"]
        if not rec["sem"].acquire(timeout=HANG_TIMEOUT):
            return
        try:
            sys.settrace(self._tracer)
            try:
                rec["result"] = rec["fn"]()
            finally:
                sys.settrace(None)
        except HarnessFault as e:
            self.fault = self.fault or e
        except Deadlock:
            pass
        except BaseException as e:  # noqa  observation, not a crash
            rec["exc"] = e
        rec["done"] = True
        self._finish(rec)

    def _finish(self, rec):
        if self.fault or self.deadlock:
            self._release_all()
            return
        en = self._enabled()
        if not en:
            if all(t["done"] for t in self.threads):
                self.done_evt.set()
            else:
                self.deadlock = True
                self._release_all()
            return
        nxt = self._choose(en, running_enabled=False)
        self.running = nxt
        self.threads[nxt]["sem"].release()

    def _release_all(self):
        self.done_evt.set()
        for t in self.threads:
            t["sem"].release()

    # -- tracing ----------------------------------------------------------------
    def _tracer(self, frame, event, arg):
        code = frame.f_code
        if code in self.opcode_targets or code.co_filename in self.opcode_files:
            frame.f_trace_opcodes = True
            if code in self.call_targets:
                self.point(("call", code.co_name))
            return self._local_opcode
        if code in self.line_targets or code.co_filename in self.line_files:
            if code in self.call_targets:
                self.point(("call", code.co_name))
            return self._local_line
        if code in self.call_targets:
            self.point(("call", code.co_name))
        return None

    def _local_opcode(self, frame, event, arg):
        if event == "opcode":
            self.point(("op", frame.f_code.co_name, frame.f_lasti))
        return self._local_opcode

    def _local_line(self, frame, event, arg):
        if event == "line":
            self.point(("line", frame.f_code.co_name, frame.f_lineno))
        return self._local_line

    # -- scheduling -----------------------------------------------------------
    def _enabled(self):
        return [t["id"] for t in self.threads if not t["done"] and t["blocked_on"] is None]

    def _choose(self, enabled, running_enabled):
        """enabled is in canonical order (running thread first if enabled)."""
        i = len(self.choices)
        if i < len(self.prefix):
            c = self.prefix[i]
            if c >= len(enabled):
                self.fault = HarnessFault(f"replay divergence at point {i}: choice {c} of {len(enabled)} enabled")
                raise self.fault
        else:
            c = 0
        self.choices.append(c)
        self.points.append((len(enabled), running_enabled, c))
        return enabled[c]

    def point(self, what=None):
        me = self.current_id()
        if me is None or me != self.running:
            return
        if self.fault or self.deadlock:
            raise Deadlock()
        self.step += 1
        if self.step > self.horizon:
            self.fault = HarnessFault("step horizon exceeded")
            raise self.fault
        others = [t for t in self._enabled() if t != me]
        if not others:
            return  # no choice to make: not recorded as a point
        enabled = [me] + others
        nxt = self._choose(enabled, running_enabled=True)
        if nxt != me:
            self._switch(me, nxt)

    def _switch(self, me, nxt):
        self.running = nxt
        self.threads[nxt]["sem"].release()
        if not self.threads[me]["sem"].acquire(timeout=HANG_TIMEOUT):
            self.fault = self.fault or HarnessFault("baton wait timed out")
            raise self.fault
        if self.fault or self.deadlock:
            raise Deadlock()

    def block(self, me, lock):
        """The running thread cannot proceed: disabled until the lock is released."""
        self.threads[me]["blocked_on"] = lock
        en = self._enabled()
        if not en:
            self.deadlock = True
            self._release_all()
            raise Deadlock()
        nxt = self._choose(en, running_enabled=False)
        self._switch(me, nxt)

    def wake(self, lock):
        for t in self.threads:
            if t["blocked_on"] is lock:
                t["blocked_on"] = None

    # -- run ---------------------------------------------------------------------
    def run(self):
        for t in self.threads:
            t["thread"].start()
        en = self._enabled()
        first = self._choose(en, running_enabled=False)
        self.running = first
        self.threads[first]["sem"].release()
        if not self.done_evt.wait(HANG_TIMEOUT):
            self.fault = self.fault or HarnessFault("execution hung")
            self._release_all()
        for t in self.threads:
            t["thread"].join(HANG_TIMEOUT)
        return self


def preemptions_before(points, i):
    return sum(1 for (n, running_enabled, c) in points[:i] if running_enabled and c != 0)


def explore(run_once, bound, prefix=(), max_executions=None, stats=None):
    """run_once(prefix) -> (points, choices, verdict) ; verdict is a list of failures.
    Depth-first over all choice sequences within the preemption bound.
    Yields (choices, failures) for every execution."""
    stack = [list(prefix)]
    n = 0
    while stack:
        pre = stack.pop()
        points, choices, fails = run_once(pre)
        n += 1
        if stats is not None:
            stats["executions"] = stats.get("executions", 0) + 1
            stats["points"] = stats.get("points", 0) + len(points)
            stats["max_points"] = max(stats.get("max_points", 0), len(points))
        yield choices, fails
        if max_executions is not None and n >= max_executions:
            if stats is not None:
                stats["capped"] = True
            return
        for i in range(len(pre), len(points)):
            n_en, running_enabled, c = points[i]
            cost = preemptions_before(points, i)
            if running_enabled:
                cost += 1
            if cost > bound:
                continue
            for alt in range(1, n_en):
                stack.append(list(choices[:i]) + [alt])
