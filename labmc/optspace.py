"""Option dictionaries: independent dotted lookup / restrict / overlay / perturb.

Nothing here imports confectioner or labrea: these are the *model's* notions of
"present", "restricted to keys" and "overlaid", written from the property
statements.
"""
import copy
import itertools

ABSENT = ("<absent>",)  # sentinel used in alphabets: key not in the dictionary


def is_absent(v):
    """ABSENT survives pickling between processes only by value, not identity."""
    return isinstance(v, tuple) and v == ABSENT


class Absent(Exception):
    pass


def _seg(s):
    try:
        return int(s)
    except ValueError:
        return s


def lookup(o, dotted):
    """Value under a dotted (possibly list-indexed) key, or raise Absent.

    A path that runs through a scalar, through a list with a non-integer
    segment, or through a mapping with an integer segment, is absent.
    """
    cur = o
    for s in dotted.split("."):
        k = _seg(s)
        if isinstance(cur, dict):
            if isinstance(k, int) or k not in cur:
                raise Absent(dotted)
            cur = cur[k]
        elif isinstance(cur, list):
            if not isinstance(k, int):
                raise Absent(dotted)
            try:
                cur = cur[k]
            except IndexError:
                raise Absent(dotted)
        else:
            raise Absent(dotted)
    return cur


def exists(o, dotted):
    try:
        lookup(o, dotted)
        return True
    except Absent:
        return False


def through_scalar(o, dotted):
    """True when the dotted path hits a scalar before its last segment
    (confectioner raises a raw TypeError there: known finding S12)."""
    cur = o
    segs = dotted.split(".")
    for i, s in enumerate(segs):
        k = _seg(s)
        if isinstance(cur, dict):
            if isinstance(k, int) or k not in cur:
                return False
            cur = cur[k]
        elif isinstance(cur, list):
            if not isinstance(k, int):
                return False
            try:
                cur = cur[k]
            except IndexError:
                return False
        else:
            return True
    return False


def set_path(o, dotted, value):
    """In-place set of a dotted path made of mapping segments only."""
    segs = dotted.split(".")
    cur = o
    for s in segs[:-1]:
        nxt = cur.get(s)
        if not isinstance(nxt, dict):
            nxt = {}
            cur[s] = nxt
        cur = nxt
    cur[segs[-1]] = value


def restrict(o, keys):
    """Minimal sub-dictionary of ``o`` holding the values at the given dotted
    paths.  A path that goes through a list keeps the whole list (list elements
    are not addressable separately in a JSON section)."""
    out = {}
    for key in sorted(keys):
        cur = o
        prefix = []
        for s in key.split("."):
            if isinstance(cur, dict) and s in cur:
                prefix.append(s)
                cur = cur[s]
            else:
                break
        if not prefix:
            continue
        tgt = out
        ok = True
        for s in prefix[:-1]:
            nxt = tgt.get(s)
            if not isinstance(nxt, dict):
                if s in tgt:
                    ok = False
                    break
                nxt = {}
                tgt[s] = nxt
            tgt = nxt
        if not ok:
            continue
        last = prefix[-1]
        if isinstance(cur, dict) and isinstance(tgt.get(last), dict):
            tgt[last] = overlay(tgt[last], cur)
        else:
            tgt[last] = copy.deepcopy(cur)
    return out


def overlay(lo, hi):
    """``hi`` over ``lo``: sections merged key by key, lists/scalars replaced."""
    if not isinstance(lo, dict) or not isinstance(hi, dict):
        return copy.deepcopy(hi)
    out = copy.deepcopy(lo)
    for k, v in hi.items():
        if isinstance(v, dict):
            base = out.get(k)
            out[k] = overlay(base if isinstance(base, dict) else {}, v)
        else:
            out[k] = copy.deepcopy(v)
    return out


def leaves(o, prefix=""):
    """All (dotted path, value) with non-mapping values (mappings recursed)."""
    for k, v in o.items():
        p = f"{prefix}.{k}" if prefix else k
        if isinstance(v, dict) and v:
            yield from leaves(v, p)
        else:
            yield p, v


def product_dicts(spec):
    """spec: list of (dotted key, [values...]) where a value may be ABSENT.
    Yields every dictionary of the full product, sections in canonical order."""
    keys = [k for k, _ in spec]
    for combo in itertools.product(*[vs for _, vs in spec]):
        d = {}
        for k, v in zip(keys, combo):
            if is_absent(v):
                continue
            set_path(d, k, copy.deepcopy(v))
        yield d


def freeze(x):
    """Hashable canonical form of a JSON-ish / python value (type-sensitive:
    True != 1, 0 != False, 1 != 1.0)."""
    if isinstance(x, dict):
        return ("D", tuple(sorted(((freeze(k), freeze(v)) for k, v in x.items()), key=repr)))
    if isinstance(x, list):
        return ("L", tuple(freeze(v) for v in x))
    if isinstance(x, tuple):
        return ("T", tuple(freeze(v) for v in x))
    if isinstance(x, (set, frozenset)):
        return ("S", tuple(sorted((freeze(v) for v in x), key=repr)))
    if isinstance(x, bool):
        return ("b", x)
    if isinstance(x, int):
        return ("i", x)
    if isinstance(x, float):
        return ("f", x)
    if x is None:
        return ("n",)
    if isinstance(x, str):
        return ("s", x)
    if isinstance(x, bytes):
        return ("y", x)
    return ("o", type(x).__name__, repr(x))


def permute_top(o):
    """All top-level key-order permutations of ``o`` (bounded by caller)."""
    for perm in itertools.permutations(list(o.keys())):
        yield {k: o[k] for k in perm}
