"""The graph catalogue: leaves x one-hole contexts, enumerated exhaustively by
nesting depth, each with the full product of its option-dictionary alphabet.

A *leaf* reads option keys in one of the ways the code distinguishes (flat key,
dotted key, whole section, list index, constant / template / chained / dataset
default, templated value, Template, AllOptions, factory, domain).
A *context* is a public constructor with one distinguished child slot (the
hole); all other slots hold minimal fillers that read their own filler key.
Types: 'h' hashable scalar-ish, 'j' any JSON (may be a section/list), 'l' list.
"""
import itertools

from .optspace import ABSENT, product_dicts

# ---------------------------------------------------------------------------
# leaves: (name, term, type, [(key, values)...])

A3 = ("A", [ABSENT, 1, 2])
B3 = ("B", [ABSENT, 1, 2])
A2 = ("A", [ABSENT, 1])

LEAVES = [
    ("val", ("val", 5), "h", []),
    ("opt", ("opt", "A"), "h", [A3]),
    ("optdef", ("opt", "A", ("val", 7)), "h", [A3]),
    ("dotted", ("opt", "S.X"), "h", [("S.X", [ABSENT, 1, 2]), ("S.Y", [ABSENT, 5])]),
    ("section", ("opt", "S"), "j", [("S.X", [ABSENT, 1, 2]), ("S.Y", [ABSENT, 5])]),
    ("listidx", ("opt", "L.0"), "h", [("L", [ABSENT, [1, 2], [2]])]),
    ("tmpldef", ("opt", "A", ("tmpl", "{B}-x", {})), "h", [A2, B3]),
    ("chain", ("opt", "A", ("opt", "B")), "h", [A2, B3]),
    ("dsdef", ("opt", "A", ("ds", "inner", {"params": [("opt", "B")]})), "h", [A2, B3]),
    ("tmplval", ("opt", "A"), "h", [("A", [ABSENT, 1, "{B}"]), B3]),
    ("tmplval_def", ("opt", "A", ("val", 7)), "h", [("A", [ABSENT, "{B}"]), B3]),
    ("tmplval2", ("opt", "A"), "h", [("A", ["{B}"]), ("B", [1, "{C}", "x{C}"]), ("C", [ABSENT, 1, 2])]),
    ("tmplval_list", ("opt", "A"), "j", [("A", [ABSENT, ["{B}"]]), B3]),
    ("tmplval_sect", ("opt", "A"), "j", [("A", [ABSENT, {"K": "{B}"}]), B3]),
    ("tmpl", ("tmpl", "{A}/{:p:}", {"p": ("opt", "B")}), "h", [A3, B3]),
    # a Template whose single reference points at a list / a string holding further references
    ("tmpl_ref", ("tmpl", "{A}", {}), "h", [("A", [ABSENT, 1, ["{B}"], "{B}"]), B3]),
    # values that are equal in Python but different JSON values (1 / True)
    ("opt_b", ("opt", "A"), "h", [("A", [ABSENT, 1, True])]),
    ("all", ("all",), "j", [A3]),
    ("factory", ("optf", "A", 7), "h", [A3]),
    ("listval", ("opt", "M"), "l", [("M", [ABSENT, [1, 2], [2]])]),
    ("domain", ("optdom", "A", None, ("vals", [1, 2])), "h", [("A", [ABSENT, 1, 3])]),
    ("domain_dsdef", ("optdom", "A", ("ds", "ddef", {"params": [("opt", "B", ("val", 1))]}), ("pred", "p_true")), "h", [A2, B3]),
    ("domain_opt", ("optdom", "A", ("val", 1), ("term", ("opt", "DOM", ("val", [1, 3])))), "h", [("A", [ABSENT, 1, 3]), ("DOM", [ABSENT, [1], [1, 3]])]),
]
LEAF_BY_NAME = {l[0]: l for l in LEAVES}
# quick tiers of the three most expensive checks use these leaves at nesting depth 2 (all leaves at depth
# <= 1; thorough tiers use all leaves everywhere)
QUICK2_LEAVES = ["opt", "dotted", "section", "tmpldef", "chain", "dsdef", "tmplval", "tmplval2", "tmplval_list", "tmpl", "all", "domain", "domain_opt"]

# leaves whose handling is a known, recorded defect of the unchanged tree can be
# excluded by name from a check's alphabet (see known_findings.json)

# ---------------------------------------------------------------------------
# contexts: name -> (accept, rtype, builder(hole, i) -> term, fillers)
# fillers: list of (key, values) added to the alphabet


def _q(i, n):
    return f"Q{n}{i}"


def _ctx():
    C = []

    def add(name, accept, rtype, build, fillers=lambda i: []):
        C.append((name, accept, rtype, build, fillers))

    same = lambda t: t  # noqa  (value passes through unchanged)
    alt = lambda t: "j" if t == "l" else t  # noqa  (passes through, but another branch may yield a non-list)
    tag = lambda t: "h" if t == "h" else (t if t in ("i", "ii") else "j")  # noqa  (value wrapped in a tagged tuple)
    H = lambda t: "h"  # noqa
    J = lambda t: "j"  # noqa
    ANY = ("h", "j", "l", "i", "ii")
    # EAGER: what may be stored in a cache or used only to pick a branch.  A lazy Iter/Map result in a
    # dispatch position is never consumed, so evaluate() would not even look at its elements.
    EAGER = ("h", "j", "l")
    I = lambda t: "ii" if t in ("i", "ii") else "i"  # noqa  (lazy iterable: Iter / Map results)
    Jl = lambda t: t if t in ("i", "ii") else "j"  # noqa  (container holding the value)

    add("apply", ANY, tag, lambda h, i: ("apply", h, ("fn", f"f{i}")))
    add("apply_step", ANY, tag, lambda h, i: ("apply", ("val", 0), ("step", f"g{i}", {"y": h})))
    add("apply_pa", ANY, tag, lambda h, i: ("apply", ("val", 0), ("pa", f"g{i}", [h], {})))
    add("pipe", ANY, tag, lambda h, i: ("apply", ("val", 0), ("pipe", [("step", f"g{i}", {"y": h}), ("fn", f"f{i}")])))
    add("fa_pos", ANY, tag, lambda h, i: ("fa", f"g{i}", [("val", 0), h], {}))
    add("fa_kw", ANY, tag, lambda h, i: ("fa", f"g{i}", [], {"k": h}))
    add(
        "bind_src",
        EAGER,
        H,
        lambda h, i: (
            "bind",
            h,
            [(1, ("opt", _q(i, "b"), ("val", "q1"))), (2, ("ds", f"b2{i}", {"params": []}))],
            ("ds", f"bo{i}", {"params": []}),
        ),
        lambda i: [(_q(i, "b"), [ABSENT, "Q"])],
    )
    add(
        "bind_res",
        ANY,
        alt,
        lambda h, i: ("bind", ("opt", _q(i, "r"), ("val", 0)), [(0, h)], ("val", "other")),
        lambda i: [(_q(i, "r"), [ABSENT, 1])],
    )
    add(
        "switch_disp",
        ("h",),
        H,
        lambda h, i: ("switch", h, [(1, ("val", "one")), (2, ("opt", _q(i, "s"), ("val", "q")))], ("val", "dflt")),
        lambda i: [(_q(i, "s"), [ABSENT, "Q"])],
    )
    add(
        "switch_mixed",
        ("h",),
        H,
        # aliases of different types that cannot be ordered; no default
        lambda h, i: ("switch", h, [(1, ("val", "one")), ("k", ("val", "kay")), (None, ("val", "none")), ((2, "t"), ("val", "tup"))], None),
    )
    add("switch_disp_nd", ("h",), H, lambda h, i: ("switch", h, [(1, ("val", "one")), (2, ("val", "two"))], None))
    add(
        "switch_branch",
        ANY,
        alt,
        lambda h, i: (
            "switch",
            ("opt", _q(i, "w"), ("val", "k")),
            [("k", h), ("j", ("ds", f"sj{i}", {"params": []}))],
            ("ds", f"sd{i}", {"params": []}),
        ),
        lambda i: [(_q(i, "w"), [ABSENT, "j", "zz"])],
    )
    add(
        "switch_dflt",
        ANY,
        alt,
        lambda h, i: ("switch", ("optkey", _q(i, "x")), [("k", ("val", 0))], h),
        lambda i: [(_q(i, "x"), [ABSENT, "k", "zz"])],
    )
    add(
        "case_disp",
        EAGER,
        H,
        lambda h, i: ("case", h, [(("fn", "p_eq:1"), ("val", "is1")), (("fn", "p_eq:2"), ("val", "is2"))], ("val", "else")),
    )
    add("case_disp_nd", EAGER, H, lambda h, i: ("case", h, [(("fn", "p_eq:1"), ("val", "is1"))], None))
    add(
        "case_branch",
        ANY,
        alt,
        lambda h, i: (
            "case",
            ("opt", _q(i, "c"), ("val", 1)),
            [(("fn", "p_eq:1"), h), (("fn", "p_eq:3"), ("ds", f"cj{i}", {"params": []}))],
            ("ds", f"co{i}", {"params": []}),
        ),
        lambda i: [(_q(i, "c"), [ABSENT, 3, 4])],
    )
    add(
        "case_cond",
        EAGER,
        H,
        lambda h, i: ("case", ("val", 1), [(("pa", "p_same", [h], {}), ("val", "match"))], ("val", "else")),
    )
    add(
        "case_cond2",
        EAGER,
        H,
        # the first case matches: the condition of the second one (the hole) must not even be evaluated
        lambda h, i: (
            "case",
            ("opt", _q(i, "y"), ("val", 1)),
            [(("fn", "p_eq:1"), ("val", "first")), (("pa", "p_same", [h], {}), ("val", "second"))],
            ("val", "else"),
        ),
        lambda i: [(_q(i, "y"), [ABSENT, 5])],
    )
    add(
        "case_other",
        ANY,
        alt,
        lambda h, i: ("case", ("opt", _q(i, "o"), ("val", 3)), [(("fn", "p_eq:1"), ("val", "is1"))], h),
        lambda i: [(_q(i, "o"), [ABSENT, 1])],
    )
    add("coalesce_first", ANY, alt, lambda h, i: ("coalesce", [h, ("ds", f"cl{i}", {"params": []})]))
    add(
        "coalesce_second",
        ANY,
        alt,
        lambda h, i: ("coalesce", [("opt", _q(i, "f")), h, ("ds", f"cm{i}", {"params": []})]),
        lambda i: [(_q(i, "f"), [ABSENT, "first"])],
    )
    add(
        "coalesce_dom",
        ANY,
        alt,
        # first member: its key can be present and still make the member fail (value outside the domain)
        lambda h, i: ("coalesce", [("optdom", _q(i, "g"), None, ("vals", [1])), h]),
        lambda i: [(_q(i, "g"), [ABSENT, 1, 5])],
    )
    # siblings that read keys overlapping the hole's keys: a member of section S, and the whole section
    add("pair_SX", ANY, tag, lambda h, i: ("tuple", [("opt", "S.X", ("val", 0)), h]))
    add("pair_S", ANY, lambda t: t if t in ("i", "ii") else "j", lambda h, i: ("tuple", [("opt", "S", ("val", 0)), h]))
    add("list", ANY, Jl, lambda h, i: ("list", [("val", 0), h]))
    add("tuple", ANY, tag, lambda h, i: ("tuple", [("val", 0), h]))
    add("set", ("h",), J, lambda h, i: ("set", [("val", 0), h]))
    add("dict", ANY, Jl, lambda h, i: ("dict", [("k", h)]))
    add("iter", ANY, Jl, lambda h, i: ("apply", ("iter", [h, ("val", 0)]), ("fn", "f_list")))
    add("map_ev", ANY, I, lambda h, i: ("map", h, [(_q(i, "m"), ("val", [1, 2]))]))
    add(
        "map2_ev",
        ANY,
        I,
        lambda h, i: ("map", h, [(_q(i, "m"), ("val", [1, 2])), (_q(i, "k"), ("val", ["x", "y"]))]),
    )
    add(
        "map_sect_ev",
        ANY,
        I,
        # two mapped keys inside one section: the per-element pre-set options must merge, not replace
        lambda h, i: ("map", h, [("S.X", ("val", [1, 2])), ("S.Y", ("val", [5]))]),
    )
    add(
        "map_disp",
        ANY,
        I,
        # the mapped key is a dispatch value: elements take different branches and read different options
        lambda h, i: (
            "mapvalues",
            ("switch", ("optkey", _q(i, "z")), [("x", h)], ("val", "dflt")),
            [(_q(i, "z"), ("val", ["y", "x"]))],
        ),
    )
    add("mapvalues_ev", ANY, I, lambda h, i: ("mapvalues", h, [("A", ("val", [1, 3]))]))
    # an iterable with repeated (and ==-equal) elements: one pair per element of the product, not per distinct value
    add("map_dup_ev", ANY, I, lambda h, i: ("map", h, [(_q(i, "m"), ("val", [2, 2, 1, True]))]))
    add(
        "map_iter",
        ("l", "i"),
        I,
        lambda h, i: ("map", ("opt", _q(i, "n"), ("val", 0)), [(_q(i, "n"), h)]),
    )
    add("wo_other", ANY, same, lambda h, i: ("withopt", h, {_q(i, "p"): 1}, True))
    add("wo_A", ANY, same, lambda h, i: ("withopt", h, {"A": 9}, True))
    add("wo_B", ANY, same, lambda h, i: ("withopt", h, {"B": 9}, True))
    add("wo_SY", ANY, same, lambda h, i: ("withopt", h, {"S": {"Y": 9}}, True))
    add("wo_SX", ANY, same, lambda h, i: ("withopt", h, {"S": {"X": 9}}, True))
    add("wdo_A", ANY, same, lambda h, i: ("withopt", h, {"A": 9}, False))
    add("wdo_B", ANY, same, lambda h, i: ("withopt", h, {"B": 9}, False))
    add("wdo_A1", ANY, same, lambda h, i: ("withopt", h, {"A": 1}, False))
    add("wdo_SY", ANY, same, lambda h, i: ("withopt", h, {"S": {"Y": 9}}, False))
    add("cached", EAGER, same, lambda h, i: ("cached", h, f"c{i}"))
    add("ds_param", EAGER, tag, lambda h, i: ("ds", f"dp{i}", {"params": [h]}))
    # datasets defined from an expression instead of a function
    add("ds_of_ev", EAGER, same, lambda h, i: ("ds", f"dx{i}", {"definition": h}))
    add("ds_of_ev_opts", EAGER, tag, lambda h, i: ("ds", f"dy{i}", {"definition": h, "options": {"A": 9}, "default_options": {"B": 9}, "callback": ("fn", f"cb{i}")}))
    add("ds_nocache", EAGER, tag, lambda h, i: ("ds", f"dn{i}", {"params": [h], "cache": "none"}))
    add(
        "ds_dispatch",
        ("h",),
        H,
        lambda h, i: ("ds", f"dd{i}", {"params": [("val", 0)], "dispatch": h, "overloads": [(1, ("val", "ov1"))]}),
    )
    add(
        "ds_abs_dispatch",
        ("h",),
        H,
        lambda h, i: ("ds", f"da{i}", {"abstract": True, "dispatch": h, "overloads": [(1, ("val", "ov1"))]}),
    )
    add(
        "ds_overload",
        EAGER,
        alt,
        lambda h, i: (
            "ds",
            f"do{i}",
            {
                "params": [("val", 0)],
                "dispatch": ("optkey", _q(i, "d")),
                "overloads": [("k", h), ("j", ("ds", f"oj{i}", {"params": []}))],
            },
        ),
        lambda i: [(_q(i, "d"), [ABSENT, "k", "j", "zz"])],
    )
    add(
        "ds_callback",
        EAGER,
        tag,
        lambda h, i: ("ds", f"dc{i}", {"params": [("val", 0)], "callback": ("step", f"cb{i}", {"y": h})}),
    )
    add("ds_cb_over", EAGER, tag, lambda h, i: ("ds", f"dk{i}", {"params": [h], "callback": ("fn", f"cb{i}")}))
    add("ds_effect", EAGER, tag, lambda h, i: ("ds", f"de{i}", {"params": [h], "effects": [f"e{i}"]}))
    add("ds_options_A", EAGER, tag, lambda h, i: ("ds", f"dA{i}", {"params": [h], "options": {"A": 9}}))
    add("ds_options_SY", EAGER, tag, lambda h, i: ("ds", f"dS{i}", {"params": [h], "options": {"S": {"Y": 9}}}))
    add("ds_defopts_B", EAGER, tag, lambda h, i: ("ds", f"dB{i}", {"params": [h], "default_options": {"B": 9}}))
    add("dswo_A", EAGER, tag, lambda h, i: ("dswo", ("ds", f"dw{i}", {"params": [h]}), {"A": 9}))
    add("dswdo_B", EAGER, tag, lambda h, i: ("dswdo", ("ds", f"dv{i}", {"params": [h]}), {"B": 9}))
    add("tmpl_param", ("h", "l"), H, lambda h, i: ("tmpl", "x{:p:}y", {"p": h}))
    add(
        "opt_default",
        ANY,
        alt,
        lambda h, i: ("opt", _q(i, "e"), h),
        lambda i: [(_q(i, "e"), [ABSENT, "given"])],
    )
    add(
        "overloaded_disp",
        ("h",),
        H,
        lambda h, i: ("overloaded", h, [(1, ("val", "one"))], ("val", "dflt")),
    )
    add(
        "overloaded_branch",
        ANY,
        alt,
        lambda h, i: ("overloaded", ("opt", _q(i, "v"), ("val", "k")), [("k", h)], None),
        lambda i: [(_q(i, "v"), [ABSENT, "zz"])],
    )
    add("computation", ANY, same, lambda h, i: ("computation", h, [f"ce{i}"]))
    add("logged", ANY, same, lambda h, i: ("logged", h))
    add("consume", ("i",), J, lambda h, i: ("apply", h, ("fn", "f_list")))
    return C


CONTEXTS = _ctx()
CTX_BY_NAME = {c[0]: c for c in CONTEXTS}


def _sanitize_types(t):
    return t


def compose(ctx_names, leaf_name):
    """ctx_names outermost first.  Returns (term, spec) or None if ill-typed."""
    name, term, typ, spec = LEAF_BY_NAME[leaf_name]
    spec = list(spec)
    depth = len(ctx_names)
    for lvl, cn in enumerate(reversed(ctx_names)):
        i = depth - 1 - lvl  # outermost context gets index 0
        _, accept, rtype, build, fillers = CTX_BY_NAME[cn]
        if typ not in accept:
            return None
        term = build(term, i)
        typ = rtype(typ)
        spec = spec + list(fillers(i))
    # merge duplicate keys in spec (same key mentioned twice): union of values
    merged = {}
    order = []
    for k, vs in spec:
        if k not in merged:
            merged[k] = list(vs)
            order.append(k)
        else:
            for v in vs:
                if not any(type(v) is type(w) and v == w for w in merged[k]):
                    merged[k].append(v)
    return term, [(k, merged[k]) for k in order]


def final_type(ctx_names, leaf_name):
    if list(ctx_names) == ["x"]:
        return "j"  # the hand-listed extras all yield eager JSON-ish values
    typ = LEAF_BY_NAME[leaf_name][2]
    for cn in reversed(ctx_names):
        _, accept, rtype, build, fillers = CTX_BY_NAME[cn]
        if typ not in accept:
            return None
        typ = rtype(typ)
    return typ


# hand-listed depth-1 terms that the one-hole scheme cannot express: plain python constants (not wrapped in
# Value) in every position that accepts a MaybeEvaluatable, and one-member collections
_R = lambda v: ("raw", v)  # noqa
EXTRAS = [
    ("x:list1_rawlist", ("list", [_R([1, 2])]), []),
    ("x:list1_rawtuple", ("list", [_R((1, 2))]), []),
    ("x:tuple1_rawtuple", ("tuple", [_R((1, 2))]), []),
    ("x:tuple1_rawlist", ("tuple", [_R([1, 2])]), []),
    ("x:set1_rawtuple", ("set", [_R((1, 2))]), []),
    ("x:list1_opt", ("list", [("opt", "M")]), [("M", [ABSENT, [1, 2], [[3]], []])]),
    ("x:tuple1_opt", ("tuple", [("opt", "M")]), [("M", [ABSENT, [1, 2], [[3]], []])]),
    ("x:list2_raw", ("list", [_R([1]), ("opt", "A")]), [A3]),
    ("x:dict_raw", ("dict", [("k", _R([1, 2])), ("j", _R({"a": 1}))]), []),
    ("x:iter_raw", ("apply", ("iter", [_R([1, 2]), ("opt", "A")]), ("fn", "f_list")), [A3]),
    ("x:fa_raw", ("fa", "g0", [_R([1, 2]), ("opt", "A")], {"k": _R({"a": [1]})}), [A3]),
    ("x:coalesce_raw", ("coalesce", [("opt", "A"), _R([1, 2])]), [A3]),
    # a coalesce member that holds a body AHEAD of the option that may be missing: when the member cannot be
    # evaluated it is not selected, and its body is not needed
    ("x:coalesce_body_then_opt", ("coalesce", [("list", [("ds", "xb0", {"params": [], "cache": "none"}), ("opt", "A")]), ("ds", "xfb", {"params": []})]), [A3]),
    ("x:coalesce_body_step_opt", ("coalesce", [("apply", ("ds", "xb1", {"params": [], "cache": "none"}), ("step", "st0", {"y": ("opt", "A")})), ("val", "fb")]), [A3]),
    ("x:switch_raw", ("switch", ("opt", "A", ("val", 0)), [(1, _R([1, 2])), (2, _R("two"))], _R(None)), [A3]),
    ("x:case_raw", ("case", ("opt", "A", ("val", 0)), [(("fn", "p_eq:1"), _R([1, 2]))], _R(0)), [A3]),
    ("x:map_raw", ("apply", ("mapvalues", ("opt", "A"), [("A", _R([1, 2]))]), ("fn", "f_list")), []),
    ("x:optdefault_raw", ("opt", "A", _R([1, [2]])), [A3]),
    # lift(): plain falsy constants given for parameters that also have (other) signature defaults
    ("x:falift_falsy", ("falift", "g0", {"a": _R(0), "b": _R(""), "c": _R(None)}), []),
    ("x:falift_falsy2", ("falift", "g0", {"a": ("opt", "A"), "b": _R(False), "c": _R([])}), [A3]),
    ("x:palift_falsy", ("apply", ("opt", "A"), ("palift", "g0", {"b": _R(0), "c": _R({})})), [A3]),
    ("x:palift_opt", ("apply", ("val", 1), ("palift", "g0", {"c": ("opt", "A", _R(None))})), [A3]),
    # a function that modifies what it is given: literal arguments must arrive fresh at every evaluation
    ("x:fa_mutating_literal", ("fa", "f_mutate", [_R([1, [2], {"k": [3]}])], {}), []),
    ("x:fa_mutating_literal_kw", ("tuple", [("fa", "f_mutate", [], {"x": _R({"k": [3]})}), ("opt", "A", ("val", 0))]), [A3]),
    # an evaluated pipeline / partial application handed to a consumer as a value: everything its steps need is
    # evaluated when the pipeline is, not when the consumer calls it
    ("x:pipe_as_argument", ("fa", "f_call", [("pipe", [("step", "g0", {"y": ("opt", "A")}), ("fn", "f1"), ("step", "g2", {"y": ("opt", "B", ("val", 0))})]), ("val", 5)], {}), [A3, B3]),
    ("x:pipe_as_dataset_argument", ("ds", "usepipe", {"params": [("pipe", [("step", "g0", {"y": ("ds", "pd", {"params": [("opt", "A")]})}), ("fn", "f1")])], "cache": "none"}), [A3]),
    ("x:pa_as_argument", ("fa", "f_call", [("pa", "g0", [], {"k": ("opt", "A")}), ("val", 5)], {}), [A3]),
    # a constant container default that happens to hold brace syntax is a constant (only str defaults are templates)
    ("x:optdefault_raw_braces", ("opt", "A", _R(["{B}", 1])), [A3, B3]),
    ("x:optdefault_val_braces", ("opt", "A", ("val", {"K": "{B}"})), [A3, B3]),
]


def catalogue(depth, leaves=None, contexts=None):
    """All (label, term, spec) with exactly ``depth`` nested contexts."""
    if depth == 1 and leaves is None and contexts is None:
        for label, term, spec in EXTRAS:
            yield label, term, list(spec)
    leaves = leaves or [l[0] for l in LEAVES]
    contexts = contexts or [c[0] for c in CONTEXTS]
    for combo in itertools.product(contexts, repeat=depth):
        for ln in leaves:
            r = compose(combo, ln)
            if r is None:
                continue
            term, spec = r
            yield ("/".join(combo) + ":" + ln if combo else ln), term, spec


def dictionaries(spec, cap=None):
    ds = list(product_dicts(spec))
    return ds


def wrap_cache(term, how):
    """Put a cache around a term: the two public ways."""
    if how == "cached":
        return ("cached", term, "top")
    if how == "ds":
        return ("ds", "top", {"params": [term]})
    raise ValueError(how)
