import importlib
import sys

from . import runner


def main():
    if len(sys.argv) < 2:
        print("usage: check <ID> [--tier quick|thorough] [--replay path]")
        return 2
    pid = sys.argv[1].upper()
    hashseed = "0"
    runner.pin_environment(hashseed)
    mod = importlib.import_module(f"labmc.checks.{pid.lower()}")
    return runner.main(mod, sys.argv[2:])


if __name__ == "__main__":
    sys.exit(main())
