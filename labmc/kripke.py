"""Explicit-state exploration whose transition function is the real code.

``CacheSystem`` closes a built graph into a transition system: the state is the
content of every MemoryCache of the world (fingerprint bytes -> stored value),
snapshotted and restored exactly by dict copy.  ``bfs`` explores breadth-first
with canonical-state deduplication to a depth bound or a fixpoint.
"""
from .optspace import freeze
from .ref import peek


class CacheSystem:
    def __init__(self, world):
        self.world = world

    def snapshot(self):
        return {cid: dict(c._cache) for cid, c in self.world.caches.items() if hasattr(c, "_cache")}

    def restore(self, snap):
        for cid, c in self.world.caches.items():
            if hasattr(c, "_cache"):
                c._cache = dict(snap.get(cid, {}))

    @staticmethod
    def canon(snap):
        return tuple(
            sorted(
                (repr(cid), tuple(sorted((fp, repr(freeze(peek(v)))) for fp, v in entries.items())))
                for cid, entries in snap.items()
                if entries
            )
        )

    def entries(self):
        return sum(len(c._cache) for c in self.world.caches.values() if hasattr(c, "_cache"))


def bfs(system, actions, step, max_depth, max_states=2000, enabled=None):
    """Generic BFS.

    system   : object with snapshot()/restore(snap)/canon(snap)
    actions  : list of action descriptors
    step     : step(action_index, history) -> None; performs the action on the real
               objects (the system has been restored to the source state) and
               checks its oracle; returns a list of failure dicts (possibly empty)
    enabled  : optional enabled(history) -> iterable of action indices
    Returns dict(states, transitions, depth_completed, closed, capped, failures).
    """
    init = system.snapshot()
    seen = {system.canon(init)}
    frontier = [(init, [])]
    transitions = 0
    failures = []
    depth = 0
    capped = False
    while frontier and depth < max_depth:
        nxt = []
        for snap, hist in frontier:
            acts = range(len(actions)) if enabled is None else enabled(hist)
            for ai in acts:
                system.restore(snap)
                fl = step(ai, hist)
                transitions += 1
                if fl:
                    failures.extend(fl)
                ns = system.snapshot()
                k = system.canon(ns)
                if k not in seen:
                    if len(seen) >= max_states:
                        capped = True
                        continue
                    seen.add(k)
                    nxt.append((ns, hist + [ai]))
        frontier = nxt
        depth += 1
    return {
        "states": len(seen),
        "transitions": transitions,
        "depth_completed": depth,
        "closed": not frontier and not capped,
        "capped": capped,
        "failures": failures,
    }
