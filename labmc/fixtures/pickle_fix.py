"""Module-level datasets for C20 (pickle round trips).  Everything here is importable by name.

Explicit form:   name = dataset(function)         (the function keeps its own module-level name)
Decorator form:  @dataset def name(...)           (the module attribute now names the Dataset)
"""
from labrea import Option, Value, dataset
from labrea.dataset import abstractdataset


def cb(v):
    return ("cb", v)


def eff(v):
    return None


def _f_plain(a=Option("A")):
    return ("plain", a)


plain = dataset(_f_plain)


def _f_dep(p=plain, b=Option("B", 0)):
    return ("dep", p, b)


dep = dataset(_f_dep)


def _f_callback(a=Option("A", 0)):
    return ("callback", a)


with_callback = dataset(_f_callback, callback=cb)


def _f_effects(a=Option("A", 0)):
    return ("effects", a)


with_effects = dataset(_f_effects, effects=[eff])


def _f_preset(a=Option("A", 0), b=Option("B", 0)):
    return ("preset", a, b)


preset = dataset(_f_preset, options={"A": 9})
defaults = dataset(_f_preset, default_options={"B": 7})
derivative = dataset(_f_preset).with_options({"B": 5}).with_default_options({"A": 4})


def _f_disp(a=Option("A", 0)):
    return ("disp-default", a)


def _f_impl_y(b=Option("B", 0)):
    return ("impl-y", b)


disp = dataset(_f_disp, dispatch="D", callback=cb)
disp.register("x", Option("B", "no-b"))
impl_y = disp.overload(["y", "y2"])(_f_impl_y)


def _f_abs():
    pass


abstract = abstractdataset(_f_abs, dispatch=Option("D", "x"))
abstract.register("x", plain)

nocache = dataset.nocache(_f_plain)

# a self-referential graph: one implementation of `cyclic` is built on a with_options derivative of `cyclic`
def _f_cyclic(a=Option("A", 0)):
    CALLS.append(("cyclic", a))
    return ("cyclic", a)


CALLS = []  # body executions in this process (a stored value must be served without running the body)
cyclic = dataset(_f_cyclic, dispatch=Option("D", "plain"))


def _f_discounted(base=cyclic.with_options({"D": "plain"}), b=Option("B", 0)):
    return ("discounted", base, b)


cyclic.register("x", dataset(_f_discounted))


def _f_counted(a=Option("A", 0)):
    CALLS.append(("counted", a))
    return ("counted", a)


counted = dataset(_f_counted, effects=[eff])


def loud_effect(v):
    raise ValueError("this effect is switched off on its dataset and must stay so")


def _f_quiet(a=Option("A", 0)):
    return ("quiet", a)


# a dataset whose effects were switched off before pickling
quiet = dataset(_f_quiet, effects=[loud_effect])
quiet.disable_effects()


def _f_mapped(rows=None, n=Option("B", 0)):
    return ("mapped", rows, n)


def _rows(it):
    return [list(map(list_or_same, pair)) for pair in it]


def list_or_same(x):
    return dict(x) if isinstance(x, dict) else x


# a graph containing a Map over a dataset (evaluated before it is pickled by the warm round trips)
from labrea import Map, Template, coalesce, evaluatable_list, switch  # noqa: E402

mapped = dataset(_f_mapped, defaults={"rows": Map(plain, {"A": [1, 2]}).apply(_rows)})


def _f_combo(sw=None, co=None, tm=None, li=None):
    return ("combo", sw, co, tm, li)


def _is_one(x):
    return x == 1


from labrea import case  # noqa: E402

combo = dataset(
    _f_combo,
    defaults={
        "sw": switch(Option("D", "x"), {"x": plain, "y": Value("why")}, Value("dflt")),
        "co": coalesce(Option("B"), Value("no-b")),
        "tm": Template("{A}-t/{:p:}", p=Option("B", 0)),
        "li": evaluatable_list(Option("A", 0), case(Option("A", 0)).when(_is_one, Value("one")).otherwise(Value("other"))),
    },
)


def late_impl(a=Option("A", 0)):
    return ("late2", a)


EXPLICIT = ["plain", "dep", "with_callback", "with_effects", "preset", "defaults", "derivative", "disp", "abstract", "nocache", "cyclic", "counted", "quiet", "mapped", "combo"]


# decorator form ---------------------------------------------------------


@dataset
def deco_plain(a=Option("A")):
    return ("plain", a)


@dataset(dispatch="D", callback=cb)
def deco_disp(a=Option("A", 0)):
    return ("disp-default", a)


deco_disp.register("x", Option("B", "no-b"))


@dataset
def deco_dep(p=deco_plain, b=Option("B", 0)):
    return ("dep", p, b)


DECORATOR = ["deco_plain", "deco_disp", "deco_dep"]
