"""Helpers shared by the checks."""
from .build import Obs
from .optspace import freeze


def same_outcome(impl, ref, strict_kind=False):
    """impl: build.Obs, ref: ref.Outcome.  Returns None if they agree, else a
    short description."""
    if impl.ok != ref.ok:
        return f"impl={impl!r} ref={ref!r}"
    if impl.ok:
        if freeze(impl.value) != freeze(ref.value):
            return f"impl value {impl.value!r} != ref value {ref.value!r}"
        return None
    if strict_kind and (impl.kind, impl.key) != (ref.kind, ref.key):
        return f"impl failure {impl!r} != ref failure {ref!r}"
    return None


def same_obs(a, b, strict_kind=True):
    if a.ok != b.ok:
        return f"{a!r} vs {b!r}"
    if a.ok:
        if freeze(a.value) != freeze(b.value):
            return f"value {a.value!r} vs {b.value!r}"
        return None
    if strict_kind and (a.kind, a.key) != (b.kind, b.key):
        return f"failure {a!r} vs {b!r}"
    return None


def batches(items, n):
    for i in range(0, len(items), n):
        yield items[i : i + n]


def short(x, n=300):
    s = repr(x)
    return s if len(s) <= n else s[: n - 3] + "..."
