"""Term -> fresh, real labrea objects (from /repo's working tree).

A ``World`` is one build: it owns the execution log, the named datasets (so
that equal names share one object and one cache), the caches, and the fault
script.  ``mode='nocache'`` builds the memo-free twin of the same term.
"""
import copy
import functools

from .ref import fault_hits, is_pred, norm, peek, pred_fn, tag_fn
from .terms import dsprops

FAULT_TYPES = {}


def _fault_types():
    if FAULT_TYPES:
        return FAULT_TYPES
    from labrea.cache import CacheGetFailure
    from labrea.exceptions import EvaluationError, KeyNotFoundError

    class InjectedError(Exception):
        pass

    FAULT_TYPES.update(
        ValueError=lambda tag: ValueError(tag),
        KeyError=lambda tag: KeyError(tag),
        TypeError=lambda tag: TypeError(tag),
        StopIteration=lambda tag: StopIteration(tag),
        RuntimeError=lambda tag: RuntimeError(tag),
        InjectedError=lambda tag: InjectedError(tag),
        EvaluationError=lambda tag: EvaluationError(str(tag), None),
        KeyNotFoundError=lambda tag: KeyNotFoundError("INJECTED", None),
        CacheGetFailure=lambda tag: CacheGetFailure(None, {}, None),
    )
    return FAULT_TYPES


class BodyRanDuringBuild(Exception):
    pass


class World:
    def __init__(self, mode="cached", faults=None, cache_factory=None):
        assert mode in ("cached", "nocache")
        self.mode = mode
        self.faults = faults or {}
        self.log = []
        self.phase = "build"
        self.build_violations = []
        self.datasets = {}
        self.pending_registrations = []  # (dataset object, alias, term): late_overloads
        self.caches = {}
        self.raised = []  # injected exception objects, for identity checks
        self.cache_factory = cache_factory
        self.nodes = {}  # repr(term) -> object, for terms built once
        self.effect_values = []
        self.option_dicts = []  # (dictionary object handed to labrea, deep snapshot of it)

    # -- user callables --------------------------------------------------
    def _run(self, kind, name, f, args, kw=None):
        if self.phase == "build":
            self.build_violations.append((kind, name))
        self.log.append((kind, name))
        exc = fault_hits(self.faults, kind, name, args)
        if exc:
            e = _fault_types()[exc]((kind, name))
            self.raised.append(e)
            raise e
        return f(*args, **(kw or {}))

    def fn(self, name):
        kind = "pred" if is_pred(name) else "fn"
        f = pred_fn(name) if kind == "pred" else tag_fn(name)
        world = self

        def user_function(*a, **k):
            return world._run(kind, name, f, a, k)

        user_function.__name__ = name
        user_function.__qualname__ = name
        return user_function

    def effect_fn(self, name):
        world = self

        def effect(value):
            world.effect_values.append((name, peek(value)))
            return world._run("effect", name, lambda x: None, (value,))

        effect.__name__ = name
        return effect

    def _effect(self, e):
        """An effect is a name (plain callback) or ('effopt', name, key): a callback whose own
        parameter is read from the options, i.e. an Evaluatable returning the callback."""
        if isinstance(e, str) and e.startswith("log:"):
            import logging

            from labrea.logging import LogEffect

            return LogEffect(logging.INFO, "labmc_fixture", "log effect " + e[4:])
        if isinstance(e, str):
            return self.effect_fn(e)
        import labrea.functions as F
        from labrea import Option

        _, name, key = e
        fn = self.effect_fn(name)

        def with_param(value, param=None):
            return fn(value)

        return F.partial(with_param, param=Option(key))

    def body_fn(self, name, n):
        world = self
        tag = tag_fn(name)

        def run(*args):
            return world._run("body", name, tag, args)

        if n == 0:

            def body():
                return run()

        elif n == 1:

            def body(p0):
                return run(p0)

        elif n == 2:

            def body(p0, p1):
                return run(p0, p1)

        elif n == 3:

            def body(p0, p1, p2):
                return run(p0, p1, p2)

        else:
            raise ValueError("arity > 3")
        body.__name__ = name
        body.__qualname__ = name
        body.__module__ = "labmc_fixture"
        return body

    # -- construction ----------------------------------------------------
    def build(self, t):
        return getattr(self, "b_" + t[0])(t)

    def start(self):
        """Construction finished; from now on bodies may run."""
        # late_overloads: registrations made after everything (wrappers, derivatives) has been built
        while self.pending_registrations:
            d, alias, x = self.pending_registrations.pop(0)
            d.register(alias, self.build(x))
        self.phase = "run"
        return self

    def reset_log(self):
        self.log = []
        self.effect_values = []
        self.raised = []

    def b_val(self, t):
        from labrea import Value

        return Value(copy.deepcopy(t[1]))

    def b_raw(self, t):
        return copy.deepcopy(t[1])

    def _default_arg(self, d):
        # a parameter-free template default is passed as a plain string so the
        # documented str -> Template conversion of Option is what gets exercised
        if d[0] == "tmpl" and not d[2]:
            return d[1]
        if d[0] == "val" and not isinstance(d[1], str):
            return copy.deepcopy(d[1])
        return self.build(d)

    def b_opt(self, t):
        from labrea import Option

        if len(t) > 2:
            return Option(t[1], self._default_arg(t[2]))
        return Option(t[1])

    def b_optf(self, t):
        from labrea import Option

        world = self
        v = t[2]
        key = t[1]

        def factory():
            world.log.append(("factory", key))
            if world.phase == "build":
                world.build_violations.append(("factory", key))
            return copy.deepcopy(v)

        return Option(t[1], default_factory=factory)

    def b_optdom(self, t):
        from labrea import Option

        dom = t[3]
        if dom[0] == "vals":
            d = copy.deepcopy(dom[1])
        elif dom[0] == "pred":
            d = self.fn(dom[1])
        else:
            d = self.build(dom[1])
        if t[2] is not None:
            return Option(t[1], self._default_arg(t[2]), domain=d)
        return Option(t[1], domain=d)

    def b_all(self, t):
        from labrea import AllOptions

        return AllOptions

    def b_tmpl(self, t):
        from labrea import Template

        return Template(t[1], **{k: self.build(x) for k, x in t[2].items()})

    def b_fn(self, t):
        return self.fn(t[1])

    def _func(self, f):
        """Function terms: plain callables stay plain (apply wraps them)."""
        if f[0] == "fn":
            return self.fn(f[1])
        return self.build(f)

    def b_apply(self, t):
        return self.build(t[1]).apply(self._func(t[2]))

    def b_bind(self, t):
        world = self
        table = [(k, x) for k, x in t[2]]
        dflt = t[3]
        from .optspace import freeze

        def binder(v):
            world.log.append(("binder", None))
            for k, x in table:
                if freeze(k) == freeze(v):
                    return world._bound(x)
            if dflt is None:
                raise LookupError("binder has no entry")
            return world._bound(dflt)

        return self.build(t[1]).bind(binder)

    def _bound(self, x):
        # bind functions create their result lazily; build it once per term so
        # that caches inside it persist like they would for a closed-over object
        k = repr(x)
        if k not in self.nodes:
            phase, self.phase = self.phase, "build"
            try:
                self.nodes[k] = self.build(x)
            finally:
                self.phase = phase
        return self.nodes[k]

    def _dispatch(self, d):
        if isinstance(d, tuple) and d[0] == "optkey":
            return d[1]
        return self.build(d)

    def b_switch(self, t):
        from labrea import switch

        lut = {k: self.build(x) for k, x in t[2]}
        if t[3] is None:
            return switch(self._dispatch(t[1]), lut)
        return switch(self._dispatch(t[1]), lut, self.build(t[3]))

    def b_overloaded(self, t):
        from labrea import Option, Overloaded

        d = self._dispatch(t[1])
        if isinstance(d, str):
            d = Option(d)
        lut = {k: self.build(x) for k, x in t[2]}
        if t[3] is None:
            return Overloaded(d, lut)
        return Overloaded(d, lut, self.build(t[3]))

    def b_case(self, t):
        from labrea import case

        c = case(self.build(t[1]))
        for cond, x in t[2]:
            c = c.when(self._func(cond), self.build(x))
        if t[3] is not None:
            c = c.otherwise(self.build(t[3]))
        return c

    def b_coalesce(self, t):
        from labrea import coalesce

        return coalesce(*[self.build(x) for x in t[1]])

    def b_iter(self, t):
        from labrea import Iter

        return Iter(*[self.build(x) for x in t[1]])

    def b_list(self, t):
        from labrea import evaluatable_list

        return evaluatable_list(*[self.build(x) for x in t[1]])

    def b_tuple(self, t):
        from labrea import evaluatable_tuple

        return evaluatable_tuple(*[self.build(x) for x in t[1]])

    def b_set(self, t):
        from labrea import evaluatable_set

        return evaluatable_set(*[self.build(x) for x in t[1]])

    def b_dict(self, t):
        from labrea import evaluatable_dict

        return evaluatable_dict({k: self.build(x) for k, x in t[1]})

    def b_map(self, t):
        from labrea import Map

        return Map(self.build(t[1]), {k: self.build(x) for k, x in t[2]})

    def b_mapvalues(self, t):
        return self.b_map(t).values

    def b_fa(self, t):
        from labrea.application import FunctionApplication

        return FunctionApplication(
            self.fn(t[1]), *[self.build(x) for x in t[2]], **{k: self.build(x) for k, x in t[3].items()}
        )

    def b_pa(self, t):
        from labrea.application import PartialApplication

        return PartialApplication(
            self.fn(t[1]), *[self.build(x) for x in t[2]], **{k: self.build(x) for k, x in t[3].items()}
        )

    def _sig_fn(self, name, first):
        """a function with a real signature: (a|x, b, c), the last ones with signature defaults"""
        f = self.fn(name)
        if first == "a":

            def lifted(a=("sig", "a"), b=("sig", "b"), c=("sig", "c")):
                return f(a, b, c)

        else:

            def lifted(x, b=("sig", "b"), c=("sig", "c")):
                return f(x, b, c)

        lifted.__name__ = name
        return lifted

    def b_falift(self, t):
        from labrea.application import FunctionApplication

        return FunctionApplication.lift(self._sig_fn(t[1], "a"), **{k: self.build(x) for k, x in t[2].items()})

    def b_palift(self, t):
        from labrea.application import PartialApplication

        return PartialApplication.lift(self._sig_fn(t[1], "x"), **{k: self.build(x) for k, x in t[2].items()})

    def b_step(self, t):
        from labrea import pipeline_step

        world = self
        name = t[1]
        params = list(t[2].keys())
        f = self.fn(name)
        if len(params) == 0:

            def step(x):
                return f(x)

        elif len(params) == 1:
            a = params[0]

            def step(x, q0=None):
                return f(x, **{a: q0})

        elif len(params) == 2:
            a, b = params

            def step(x, q0=None, q1=None):
                return f(x, **{a: q0, b: q1})

        else:
            raise ValueError("step arity")
        step.__defaults__ = tuple(self.build(t[2][k]) for k in params) or None
        step.__name__ = name
        return pipeline_step(step)

    def b_pipe(self, t):
        from labrea.pipeline import Pipeline

        p = Pipeline()
        for f in t[1]:
            p = p + self._func(f)
        return p

    def b_withopt(self, t):
        from labrea import WithDefaultOptions, WithOptions

        x = self.build(t[1])
        P = self._given(t[2])
        return WithOptions(x, P) if t[3] else WithDefaultOptions(x, P)

    def _given(self, d):
        g = copy.deepcopy(d)
        self.option_dicts.append((g, copy.deepcopy(d)))
        return g

    def mutated_option_dicts(self):
        from .optspace import freeze

        return [(g, snap) for g, snap in self.option_dicts if freeze(g) != freeze(snap)]

    def _cache(self, cid):
        from labrea.cache import MemoryCache, NoCache

        if self.mode == "nocache":
            return NoCache()
        if cid not in self.caches:
            self.caches[cid] = self.cache_factory(cid) if self.cache_factory else MemoryCache()
        return self.caches[cid]

    def b_cached(self, t):
        from labrea import cached

        x = self.build(t[1])
        if self.mode == "nocache":
            return x
        return cached(x, self._cache(("cached", t[2])))

    def b_logged(self, t):
        import logging

        from labrea.logging import Logged

        return Logged(self.build(t[1]), logging.INFO, "labmc", "logged node")

    def b_computation(self, t):
        from labrea.computation import CallbackEffect, ChainedEffect, Computation

        return Computation(self.build(t[1]), ChainedEffect(*[CallbackEffect(self.effect_fn(e)) for e in t[2]]))

    def b_ds(self, t):
        from labrea import abstractdataset, dataset
        from labrea.cache import NoCache

        name = t[1]
        if name in self.datasets:
            if self.datasets[name][0] != repr(t):
                raise ValueError(f"dataset {name} defined twice differently")
            return self.datasets[name][1]
        p = dsprops(t)
        params = [self.build(x) for x in p["params"]]
        if p["definition"] is not None:
            # dataset(<Evaluatable>): the definition is an expression, not a function
            body = self.build(p["definition"])
        else:
            body = self.body_fn(name, len(params))
            body.__defaults__ = tuple(params) or None
        kw = {}
        if p["cache"] == "none" or self.mode == "nocache":
            kw["cache"] = NoCache()
        else:
            kw["cache"] = self._cache(("ds", name))
        if p["callback"] is not None:
            kw["callback"] = self._func(p["callback"])
        if p["effects"]:
            kw["effects"] = [self._effect(e) for e in p["effects"]]
        if p["dispatch"] is not None:
            kw["dispatch"] = self._dispatch(p["dispatch"])
        if p["options"] is not None:
            kw["options"] = self._given(p["options"])
        if p["default_options"] is not None:
            kw["default_options"] = self._given(p["default_options"])
        factory = abstractdataset if p["abstract"] else dataset
        stored = p["cache"] == "stored_factory" and self.mode != "nocache"
        if stored:
            # one stored factory made with a cache CALLABLE, used for several definitions:
            # "memo = dataset(cache=MemoryCache)" ... "memo(f)", "memo(g)"; every dataset gets a cache of its own
            from labrea.cache import MemoryCache

            if not hasattr(self, "_stored_factory"):
                self._stored_factory = dataset(cache=MemoryCache)
            kw.pop("cache")
            factory = self._stored_factory(abstract=True) if p["abstract"] else self._stored_factory
        if p["factory"] == "chain":
            # the same definition spelled as a chain of specialised factories: parameters one .where() call
            # each instead of argument defaults (they accumulate), effects one call each (they accumulate
            # too), every other keyword in a call of its own, a NoCache via the .nocache property
            # the chain starts from the factory with the OPPOSITE abstract setting and states the wanted one
            # explicitly in its last link: a later explicit setting (also a falsy one) overrides an inherited one
            factory = dataset(abstract=True) if not p["abstract"] else dataset(abstract=False)
            if p["definition"] is None:
                body.__defaults__ = None
            for i, prm in enumerate(params):
                factory = factory.where(**{f"p{i}": prm})
            for e in kw.pop("effects", []):
                factory = factory(effects=[e])
            if isinstance(kw.get("cache"), NoCache):
                kw.pop("cache")
                factory = factory.nocache
            for k in list(kw):
                factory = factory(**{k: kw.pop(k)})
            factory = factory(abstract=bool(p["abstract"]))
            d = factory(body)
        else:
            d = factory(body, **kw)
        if stored:
            self.caches[("ds", name)] = d.cache
        self.datasets[name] = (repr(t), d)
        for alias, x in p["overloads"]:
            d.register(alias, self.build(x))
        for alias, x in p["late_overloads"]:
            self.pending_registrations.append((d, alias, x))
        return d

    def b_dsref(self, t):
        # only meaningful inside late_overloads (built by start(), when every named dataset exists)
        return self.datasets[t[1]][1]

    def b_dswo(self, t):
        k = repr(t)
        if k not in self.nodes:
            self.nodes[k] = self.build(t[1]).with_options(self._given(t[2]))
        return self.nodes[k]

    def b_dswdo(self, t):
        k = repr(t)
        if k not in self.nodes:
            self.nodes[k] = self.build(t[1]).with_default_options(self._given(t[2]))
        return self.nodes[k]

    def b_helper(self, t):
        import labrea.functions as F

        args = [self.build(x) if isinstance(x, tuple) else x for x in t[2]]
        return getattr(F, t[1])(*args)


def make(term, mode="cached", faults=None, cache_factory=None):
    w = World(mode, faults, cache_factory)
    obj = w.build(term)
    w.start()
    return w, obj


# --------------------------------------------------------------------------
# observing the implementation


class Obs:
    """Outcome of one operation on the real objects, in the same vocabulary as
    ref.Outcome: ok/value, or failure kind (+ key)."""

    __slots__ = ("ok", "value", "kind", "key", "exc")

    def __init__(self, ok, value=None, kind=None, key=None, exc=None):
        self.ok, self.value, self.kind, self.key, self.exc = ok, value, kind, key, exc

    def __repr__(self):
        if self.ok:
            return f"Ok({self.value!r})"
        return f"Fail({self.kind}, {self.key!r}; {type(self.exc).__name__}: {str(self.exc)[:120]})"

    def canon(self):
        from .optspace import freeze

        return ("ok", freeze(self.value)) if self.ok else ("fail", self.kind, self.key)


def cause_chain(e):
    out = []
    seen = set()
    while e is not None and id(e) not in seen:
        seen.add(id(e))
        out.append(e)
        e = e.__cause__ if e.__cause__ is not None else (e.__context__ if not e.__suppress_context__ else None)
    return out


def classify(exc, world=None):
    """(kind, key) of a failure, from its cause chain."""
    from labrea.conditional import CaseWhenError, SwitchError
    from labrea.exceptions import InsufficientInformationError, KeyNotFoundError

    chain = cause_chain(exc)
    raised = set(map(id, world.raised)) if world is not None else set()
    for e in chain:
        if id(e) in raised:
            return ("user", None)
    for e in chain:
        if isinstance(e, KeyNotFoundError):
            # the innermost missing-key error names the option
            inner = [x for x in chain if isinstance(x, KeyNotFoundError)][-1]
            return ("missing", inner.key)
    for e in chain:
        if isinstance(e, (SwitchError, CaseWhenError)):
            return ("nobranch", None)
    for e in chain:
        if isinstance(e, InsufficientInformationError):
            return ("insufficient", None)
    last = chain[-1]
    if isinstance(last, ValueError) and "for option" in str(last):
        return ("domain", None)
    if isinstance(last, LookupError) and "binder has no entry" in str(last):
        return ("user", None)
    return ("other:" + type(last).__name__, None)


def observe(world, thunk, materialise=True):
    """Run thunk(); exceptions of any type are observations."""
    try:
        v = thunk()
        if materialise:
            v = norm(v)
        return Obs(True, v)
    except BaseException as e:  # noqa
        if isinstance(e, (KeyboardInterrupt, SystemExit, MemoryError)):
            raise
        kind, key = classify(e, world)
        return Obs(False, kind=kind, key=key, exc=e)
