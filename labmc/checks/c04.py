"""C04 - option resolution: present key wins (even falsy), else default, else error.

Three exhaustive spaces on the real Option / Namespace / Option.set:
  lookup    keys x dictionaries x default forms x domains, against the reference
  namespace every member/nesting form against the equivalent fully-qualified Option
  set       Option.set for every key x value x dictionary
"""
import copy
import itertools

from ..build import make, observe
from ..common import same_obs, same_outcome, short
from ..optspace import Absent, exists, freeze, lookup, through_scalar
from ..ref import Ref

ID = "C04"
LEVEL = "exploration"
TECHNIQUE = "exhaustive enumeration of keys x dictionaries x default forms x domains against an independent lookup/resolve reference; namespace and Option.set differential enumeration"
RULE = (
    "lookup: keys {A, S.X, S, S.X.Y, L.0, L.1.X} x all dictionaries of a per-key alphabet (every falsy JSON value, "
    "scalars, templated strings to reference depth 3, containers holding templated strings, sections with/without "
    "siblings, lists, paths through scalars) x 17 default forms (incl. escaped-brace-only strings) x 5 domain forms; namespace: 16 member forms x 40 "
    "nesting chains (every chain of up to 3 sub-namespaces below the top one, each level implicit class / @Option.namespace / @Option.namespace(name)) x dictionaries, compared on evaluate/validate/keys/explain with the qualified Option; set: keys x "
    "12 values x 9 dictionaries.  Non-trivial = (option, dictionary) pairs whose outcome differs from the same "
    "option under the empty dictionary."
)
ASSUMPTIONS = [
    "{@env.*} references, reference cycles and brace-bearing values substituted into multi-reference templates are outside the alphabet (DESIGN 1.2)",
]

FALSY = [None, 0, False, "", [], {}]
SCAL = [1, "a", True]
TMPL = ["{B}", "x{B}y", ["{B}"], {"K": "{B}"}]


def _key_dicts():
    """key -> list of dictionaries"""
    out = {}
    bc = [{}, {"B": 2}, {"B": "{C}"}, {"B": "{C}", "C": 3}, {"B": ["{C}"], "C": 3}]
    A = [{}] + [{"A": v} for v in FALSY + SCAL]
    for v in TMPL:
        for extra in bc:
            d = {"A": copy.deepcopy(v)}
            d.update(copy.deepcopy(extra))
            A.append(d)
    A += [{"B": 2}, {"a": 1}]
    out["A"] = A
    vals = FALSY + [1, "{B}", ["{B}"]]
    SX = [{}, {"S": {}}, {"S": {"Y": 1}}, {"B": 2}]
    for v in vals:
        SX.append({"S": {"X": copy.deepcopy(v)}})
        SX.append({"S": {"X": copy.deepcopy(v), "Y": 1}, "B": 2})
    SX.append({"S": 5})  # path through a scalar
    SX.append({"S": "str"})
    SX.append({"S": [1]})
    out["S.X"] = SX
    out["S"] = [{}, {"S": {}}, {"S": {"X": 1}}, {"S": {"X": "{B}"}, "B": 2}, {"S": {"X": "{B}"}}, {"S": 0}, {"S": None},
                {"S": {"X": {"Y": "{B}"}}, "B": 2}, {"S": [{"X": "{B}"}], "B": 2}]
    SXY = [{}, {"S": {}}, {"S": {"X": {}}}, {"S": {"X": {"Z": 1}}}, {"S": {"X": 5}}, {"S": {"X": None}}]
    for v in FALSY + [1, "{B}"]:
        SXY.append({"S": {"X": {"Y": copy.deepcopy(v)}}, "B": 2})
    out["S.X.Y"] = SXY
    L0 = [{}, {"L": []}, {"L": {}}, {"L": {"0": 1}}, {"L": 5}]
    for v in FALSY + [1, "{B}"]:
        L0.append({"L": [copy.deepcopy(v)], "B": 2})
        L0.append({"L": [copy.deepcopy(v), 9]})
    out["L.0"] = L0
    L1X = [{}, {"L": []}, {"L": [0]}, {"L": [0, {}]}, {"L": [0, 5]}, {"L": [0, [1]]}, {"L": [0, {"Y": 1}]}]
    for v in FALSY + [1, "{B}"]:
        L1X.append({"L": [0, {"X": copy.deepcopy(v)}], "B": 2})
    out["L.1.X"] = L1X
    return out


def _defaults():
    D = [None]
    D += [("val", 7)] + [("val", v) for v in FALSY]
    D += [("tmpl", "{B}-d", {}), ("tmpl", "lit", {})]
    # string defaults whose only braces are escaped, alone and next to a reference
    D += [("tmpl", "\\{raw\\}", {}), ("tmpl", "\\{B\\}={B}", {})]
    # string defaults that name a list-indexed key / a section member / both (resolved against the same options)
    D += [("tmpl", "{R.L.0}.bak", {}), ("tmpl", "{R.X}:{R.L.1.Y}", {})]
    D += [("opt", "B"), ("opt", "B", ("opt", "C")), ("opt", "B", ("opt", "C", ("val", 9)))]
    D += [("ds", "dflt", {"params": [("opt", "B")]})]
    D += ["factory"]
    return D


DOMAINS = [
    None,
    ("vals", [1, "a", None, 7, "2-d"]),
    ("pred", "p_isint"),
    ("term", ("pa", "p_same", [("opt", "T", ("val", 1))], {})),
    ("term", ("val", [0, 7, 9])),
]


def _term(key, default, dom):
    if default == "factory":
        if dom is None:
            return ("optf", key, 7)
        return None
    if dom is None:
        return ("opt", key) if default is None else ("opt", key, default)
    return ("optdom", key, default, dom)


def run_namespace_whole(nesting, res):
    """validate / keys / explain of the namespace OBJECTS (innermost and top) against the union over the
    equivalent fully-qualified Options."""
    fails = []
    ns, path, members = _build_ns(nesting)
    obj = ns
    for a in path.split(".")[1:]:
        # attribute names are the class names (a renamed level keeps its class name as attribute)
        obj = getattr(obj, a[:-2] if a.endswith("-n") else a)
    full = {}
    for name, (qkey, member, qualified) in members.items():
        full[qkey] = 1
    dicts = []
    for drop in [None] + sorted(full):
        for b in (None, 8):
            for uf in (None, 2):
                o = {}
                for qkey, v in full.items():
                    if qkey != drop:
                        o = _ns_merge(o, _ns_dict(qkey, v, None))
                if b is not None:
                    o["B"] = b
                if uf is not None:
                    o["U"] = {"F": uf}
                dicts.append(o)
    for target_name, target in (("innermost", obj), ("top", ns)):
        if target_name == "top" and obj is ns:
            continue
        for o in dicts:
            res["evaluations"] += 1
            qs = [q for _, (_, _, q) in members.items()]
            want_keys, want_explain, want_valid = set(), set(), True
            keys_ok = True
            for q in qs:
                k = observe(None, lambda: q.keys(copy.deepcopy(o)))
                if k.ok:
                    want_keys |= set(k.value)
                else:
                    keys_ok = False
                e = observe(None, lambda: q.explain(copy.deepcopy(o)))
                if e.ok:
                    want_explain |= set(e.value)
                if not observe(None, lambda: q.validate(copy.deepcopy(o))).ok:
                    want_valid = False
            import warnings

            with warnings.catch_warnings():
                warnings.simplefilter("ignore")
                gk = observe(None, lambda: target.keys(copy.deepcopy(o)))
                ge = observe(None, lambda: target.explain(copy.deepcopy(o)))
                gv = observe(None, lambda: target.validate(copy.deepcopy(o)))

            def bad(kind, d):
                sig = f"C04|namespace-object|{kind}|{target_name}|{nesting}"
                if not any(f["sig"] == sig for f in fails):
                    fails.append({"sig": sig, "what": f"{kind}: {target_name} namespace object of nesting {nesting} under {o!r}", "detail": d, "case": ("nswhole", NS_NESTINGS.index(nesting))})

            if gv.ok != want_valid:
                bad("validate-differs-from-members", f"validate -> {gv!r}; members valid: {want_valid}")
            if keys_ok != gk.ok:
                bad("keys-succeeds-differently-from-members", f"keys -> {gk!r}; members' keys all succeed: {keys_ok}")
            elif gk.ok and not (want_keys <= set(gk.value) and all(exists(o, k) for k in gk.value)):
                bad("keys-not-the-union-of-members", f"keys -> {sorted(gk.value)}; union over members {sorted(want_keys)}")
            if not ge.ok:
                bad("explain-failed", repr(ge))
            else:
                absent = {k for k in ge.value if not exists(o, k)}
                want_absent = {k for k in want_explain if not exists(o, k)}
                if absent != want_absent or not want_keys <= set(ge.value) | (set() if keys_ok else want_keys):
                    bad("explain-not-the-union-of-members", f"explain -> {sorted(ge.value)}; union over members {sorted(want_explain)}; keys {sorted(want_keys)}")
            if want_explain - set(o):
                res["nontrivial"] += 1
    return fails


def _ns_merge(a, b):
    out = copy.deepcopy(a)
    for k, v in b.items():
        if isinstance(v, dict) and isinstance(out.get(k), dict):
            out[k] = _ns_merge(out[k], v)
        else:
            out[k] = copy.deepcopy(v)
    return out


def cases(tier, seed):
    out = []
    kd = _key_dicts()
    for key in kd:
        for di, default in enumerate(_defaults()):
            out.append(("lookup", key, di))
    for form in range(len(NS_NESTINGS)):
        out.append(("namespace", form))
        out.append(("nswhole", form))
    out.append(("set",))
    return out


# --------------------------------------------------------------------------
# namespaces


def _ns_members():
    """(member name, class-dict entry or annotation, equivalent qualified option builder)"""
    from labrea import Option

    def f(x):
        return ("f", x)

    M = []
    M.append(("ANN", ("ann", int), lambda q: Option(q)))
    M.append(("CONST", ("attr", 5), lambda q: Option(q, 5)))
    M.append(("FALSY", ("attr", 0), lambda q: Option(q, 0)))
    M.append(("NONE", ("attr", None), lambda q: Option(q, None)))
    M.append(("TMPL", ("attr", "{B}-t"), lambda q: Option(q, "{B}-t")))
    M.append(("LIST", ("attr", [1, 2]), lambda q: Option(q, [1, 2])))
    M.append(("OPT", ("attr", lambda: Option("OPT", 7, doc="doc")), lambda q: Option(q, 7)))
    M.append(("DOM", ("attr", lambda: Option("DOM", 1, domain=[1, 2])), lambda q: Option(q, 1, domain=[1, 2])))
    M.append(("DOMND", ("attr", lambda: Option("DOMND", domain=[1, 2])), lambda q: Option(q, domain=[1, 2])))
    M.append(("CHAIN", ("attr", lambda: Option("CHAIN", Option("B"))), lambda q: Option(q, Option("B"))))
    M.append(("AUTO", ("attr", lambda: Option.auto(3, doc="auto doc")), lambda q: Option(q, 3)))
    M.append(("AUTOF", ("attr", lambda: Option.auto(3) >> f), lambda q: Option(q, 3) >> f))
    M.append(("AUTOTMPL", ("attr", lambda: Option.auto("{B}-t", doc="templated default")), lambda q: Option(q, "{B}-t")))
    M.append(("AUTODOM", ("attr", lambda: Option.auto(1, domain=[1, 2])), lambda q: Option(q, 1, domain=[1, 2])))
    M.append(("EVAL", ("attr", lambda: Option("B", 4) >> f), lambda q: Option(q, Option("B", 4) >> f)))
    # a domain-restricted automatic member that is piped
    M.append(("AUTODOMF", ("attr", lambda: Option.auto(1, domain=[1, 2]) >> f), lambda q: Option(q, 1, domain=[1, 2]) >> f))
    # one automatic option object piped twice, into two different members
    shared = {}

    def base():
        if "auto" not in shared:
            shared["auto"] = Option.auto(3, doc="shared base")
        return shared["auto"]

    def f2(x):
        return ("f2", x)

    M.append(("AUTOSH1", ("attr", lambda: base() >> f), lambda q: Option(q, 3) >> f))
    M.append(("AUTOSH2", ("attr", lambda: base() >> f2 >> f), lambda q: Option(q, 3) >> f2 >> f))
    M.append(("AUTOSH3", ("attr", lambda: base() >> f2), lambda q: Option(q, 3) >> f2))
    # an automatic member piped through a step whose parameter is read from another option
    M.append(("AUTOSTEP", ("attr", lambda: Option.auto(3) >> _scale()), lambda q: Option(q, 3) >> _scale()))
    return M


def _scale():
    from labrea import Option, pipeline_step

    @pipeline_step
    def scale(x, factor=Option("U.F")):
        return ("scaled", x, factor)

    return scale


def _nestings(max_levels=3):
    """every chain of sub-namespaces below the top one, each level a plain nested class ('imp'), a class
    decorated with @Option.namespace ('exp') or one decorated with @Option.namespace("<other name>") ('named')"""
    out = ["top"]
    for n in range(1, max_levels + 1):
        for kinds in itertools.product(("imp", "exp", "named"), repeat=n):
            out.append("/".join(kinds))
    return out


NS_NESTINGS = _nestings()


def _build_ns(nesting):
    """Returns (namespace object, {member name: (qualified key, member evaluatable)})"""
    from labrea import Option

    members = _ns_members()

    def body():
        d = {"__annotations__": {}}
        for name, (kind, v), _ in members:
            if kind == "ann":
                d["__annotations__"][name] = v
            else:
                d[name] = v() if callable(v) else copy.deepcopy(v)
        return d

    kinds = [] if nesting == "top" else nesting.split("/")
    content = body()
    path_keys = []
    attrs = []
    # build from the innermost level outwards
    for lvl in range(len(kinds), 0, -1):
        kind = kinds[lvl - 1]
        cname = f"L{lvl}"
        cls = type(cname, (), content)
        if kind == "exp":
            cls = Option.namespace(cls)
            kname = cname
        elif kind == "named":
            kname = f"{cname}-n"
            cls = Option.namespace(kname)(cls)
        else:
            kname = cname
        path_keys.insert(0, kname)
        attrs.insert(0, cname)
        content = {cname: cls}
    ns = Option.namespace(type("NS", (), content))
    obj = ns
    for a in attrs:
        obj = getattr(obj, a)
    path = ".".join(["NS"] + path_keys)
    out = {}
    for name, _, q in members:
        out[name] = (f"{path}.{name}", getattr(obj, name), q(f"{path}.{name}"))
    return ns, path, out


NS_VALUES = ["<absent>", 1, 2, 5, 0, None, "", "{B}", [3]]


def _ns_dict(qkey, v, b):
    d = {}
    if v != "<absent>":
        cur = d
        segs = qkey.split(".")
        for s in segs[:-1]:
            cur = cur.setdefault(s, {})
        cur[segs[-1]] = copy.deepcopy(v)
    if b is not None:
        d["B"] = b
    return d


def run_namespace(nesting, res):
    fails = []
    ns, path, members = _build_ns(nesting)
    for name, (qkey, member, qualified) in members.items():
        for v in NS_VALUES:
            for b in (None, 8):
                o = _ns_dict(qkey, v, b)
                for method in ("evaluate", "validate", "keys", "explain"):
                    got = observe(None, lambda: getattr(member, method)(copy.deepcopy(o)))
                    want = observe(None, lambda: getattr(qualified, method)(copy.deepcopy(o)))
                    res["evaluations"] += 1
                    d = same_obs(got, want)
                    if d:
                        fails.append(
                            {
                                "sig": f"C04|namespace|{name}|{method}|{v!r}|{b!r}|{nesting}",
                                "what": f"namespace member {qkey} ({nesting}) differs from the qualified Option on {method}({o!r})",
                                "detail": d,
                                "case": ("namespace1", nesting, name, v, b),
                            }
                        )
                if v not in ("<absent>", 1):
                    res["nontrivial"] += 1
    return fails


# --------------------------------------------------------------------------


def run_lookup(key, di, res, only=None):
    fails = []
    kd = _key_dicts()[key]
    default = _defaults()[di]
    for dom in DOMAINS:
        term = _term(key, default, dom)
        if term is None:
            continue
        w, obj = make(term, "nocache")
        r = Ref()
        base = None
        for o in kd:
            extra = [{}]
            if dom is not None and dom[0] == "term":
                extra = [{}, {"T": 7}]
            if isinstance(default, tuple) and default[0] == "tmpl" and "{R." in default[1]:
                extra = [dict(a, **b) for a in extra for b in ({}, {"R": {"L": ["a", {"Y": "b"}], "X": 0}}, {"R": {"L": ["{R.X}"], "X": None}})]
            for ex in extra:
                oo = copy.deepcopy(o)
                oo.update(ex)
                if only is not None and (dom, oo) != only:
                    continue
                w.reset_log()
                first = observe(w, lambda: obj.evaluate(copy.deepcopy(oo)))
                if first.ok:
                    _scribble_value(first.value)  # what an evaluation returned belongs to the caller
                w.reset_log()
                got = observe(w, lambda: obj.evaluate(copy.deepcopy(oo)))
                want = r.run(term, oo)
                res["evaluations"] += 1
                if base is None:
                    base = repr(want.canon())
                elif repr(want.canon()) != base:
                    res["nontrivial"] += 1
                d = same_outcome(got, want, strict_kind=True)
                if d and not got.ok and not want.ok and want.kind == "user":
                    d = None
                if d:
                    scalar = any(through_scalar(oo, k) for k in (key,))
                    if scalar and not got.ok and got.kind == "other:TypeError":
                        res["scalar_prefix"] = res.get("scalar_prefix", 0) + 1
                        sig = "C04|scalar-prefix|dotted key through a scalar raises TypeError"
                        what = "an Option whose dotted key runs through a scalar value raises a raw TypeError (from confectioner's lookup) instead of treating the key as absent"
                    else:
                        sig = f"C04|lookup|{short(term, 200)}|{oo!r}"
                        what = f"Option resolution differs from the reference: {short(term, 200)} under {oo!r}"
                    if not any(f["sig"] == sig for f in fails):
                        fails.append({"sig": sig, "what": what, "detail": d + f" term={short(term, 300)} options={oo!r}", "case": ("lookup1", key, di, dom, oo)})
                # a value outside the domain is never returned
                if got.ok and dom is not None and want.ok is False and want.kind == "domain":
                    pass  # already reported above as a disagreement
                # the default factory / default dataset must not run when the key is present
                if exists(oo, key) and any(k in ("factory",) or (k == "body" and n == "dflt") for k, n in w.log):
                    fails.append({"sig": f"C04|default-ran-although-present|{short(term, 120)}|{oo!r}", "what": f"default of {short(term, 120)} was evaluated although the key is present in {oo!r}", "detail": repr(w.log), "case": ("lookup1", key, di, dom, oo)})
    return fails


SET_KEYS = ["A", "S.X", "S.X.Y", "N.W"]
SET_VALUES = [None, 0, False, "", [], 1, "a", True, [1, {"k": 2}], 1.5, "plain", [[]]]
SET_DICTS = [{}, {"A": 1}, {"S": {"X": 1, "Y": 2}}, {"S": {"Y": 2}, "B": [1, {"Z": 1}]}, {"S": {"X": {"Y": 1, "Z": 2}}},
             {"S": 5}, {"A": {"deep": 1}}, {"N": {"W": 0, "V": None}}, {"A": 1, "S": {"X": 1}, "N": {"W": 2}}]


def run_set(res):
    from labrea import Option

    from ..optspace import leaves

    fails = []
    for key in SET_KEYS:
        opt = Option(key)
        for v in SET_VALUES:
            for o in SET_DICTS:
                snap = copy.deepcopy(o)
                inp = copy.deepcopy(o)
                got = observe(None, lambda: opt.set(inp, copy.deepcopy(v)))
                res["evaluations"] += 1
                res["nontrivial"] += 1
                tag = f"Option({key!r}).set({o!r}, {v!r})"

                def bad(kind, d):
                    fails.append({"sig": f"C04|set|{kind}|{key}|{v!r}|{o!r}", "what": f"{kind}: {tag}", "detail": d, "case": ("set1", key, v, o)})

                if not got.ok:
                    bad("set-failed", repr(got))
                    continue
                new = got.value
                if freeze(inp) != freeze(snap):
                    bad("input-mutated", f"input became {inp!r}")
                back = observe(None, lambda: opt.evaluate(copy.deepcopy(new)))
                if not back.ok or freeze(back.value) != freeze(v):
                    bad("set-value-not-read-back", f"result {new!r} evaluates to {back!r}")
                # every other leaf of the input is intact (leaves under the set path are replaced)
                for p, lv in leaves(snap):
                    if p == key or p.startswith(key + ".") or key.startswith(p + "."):
                        continue
                    try:
                        nv = lookup(new, p)
                    except Absent:
                        bad("other-key-lost", f"{p} missing from {new!r}")
                        continue
                    if freeze(nv) != freeze(lv):
                        bad("other-key-changed", f"{p}: {lv!r} -> {nv!r}")
                # the result must not share mutable structure with the input
                if isinstance(new, dict):
                    probe = copy.deepcopy(new)
                    _scribble(new)
                    if freeze(inp) != freeze(snap):
                        bad("result-aliases-input", f"mutating the result changed the input: {inp!r}")
                    new = probe
    return fails


def _scribble_value(v, depth=0):
    if depth > 5:
        return
    if isinstance(v, dict):
        for x in list(v.values()):
            _scribble_value(x, depth + 1)
        v["__scribbled__"] = 1
    elif isinstance(v, list):
        for x in v:
            _scribble_value(x, depth + 1)
        v.append("__scribbled__")
    elif isinstance(v, tuple):
        for x in v:
            _scribble_value(x, depth + 1)


def _scribble(d):
    for k, v in list(d.items()):
        if isinstance(v, dict):
            _scribble(v)
        elif isinstance(v, list):
            v.append("scribble")
    d["__scribble__"] = 1


def run_case(case):
    res = {"failures": [], "evaluations": 0, "nontrivial": 0, "samples": []}
    kind = case[0]
    if kind == "lookup":
        res["failures"] = run_lookup(case[1], case[2], res)
        if case[2] == 1:
            res["samples"].append({"space": "lookup", "key": case[1], "default": repr(_defaults()[case[2]]), "dictionaries": len(_key_dicts()[case[1]]), "example": _key_dicts()[case[1]][-1]})
    elif kind == "lookup1":
        res["failures"] = run_lookup(case[1], case[2], res, only=(case[3], case[4]))
    elif kind == "namespace":
        res["failures"] = run_namespace(NS_NESTINGS[case[1]], res)
        res["samples"].append({"space": "namespace", "nesting": NS_NESTINGS[case[1]], "members": [m[0] for m in _ns_members()], "values": NS_VALUES})
    elif kind == "nswhole":
        res["failures"] = run_namespace_whole(NS_NESTINGS[case[1]], res)
    elif kind == "namespace1":
        fl = run_namespace(case[1], res)
        res["failures"] = [f for f in fl if f["case"] == tuple(case) or list(f["case"]) == list(case)]
    elif kind == "set":
        res["failures"] = run_set(res)
        res["samples"].append({"space": "set", "keys": SET_KEYS, "values": len(SET_VALUES), "dictionaries": len(SET_DICTS)})
    elif kind == "set1":
        fl = run_set(res)
        res["failures"] = [f for f in fl if list(f["case"]) == list(case)]
    return res


def summarize(results, tier):
    tot = lambda k: sum(r.get(k, 0) for r in results)  # noqa
    samples = []
    for r in results:
        samples.extend(r.get("samples", []))
    return {
        "evaluations": tot("evaluations"),
        "distinct_nontrivial": tot("nontrivial"),
        "scalar_prefix_cases(known finding family)": tot("scalar_prefix"),
        "samples": samples[:8],
        "exhaustive": True,
    }

RULE += ' Session 4: string defaults naming list-indexed keys and section members, with and without the referenced section.'
