"""C05 - combinators evaluate to what the equivalent eager Python computation yields.

Exhaustive: every term of the catalogue (contexts^depth x leaves) x every
dictionary of the term's alphabet; the real objects (memo-free build, so cache
behaviour is C01's business) against the reference interpreter.
"""
from .. import catalogue as cat
from ..build import make, observe
from ..common import batches, same_outcome, short
from ..ref import Ref

ID = "C05"
LEVEL = "exploration"
TECHNIQUE = "exhaustive enumeration of expression terms x option dictionaries against a reference interpreter"
RULE = (
    "terms = all well-typed compositions contexts^d x leaves (d<=2 quick, d<=3 on the core contexts thorough); "
    "dictionaries = full product of each term's key alphabet; a case is non-trivial when the term reads at least "
    "one option key and the outcome differs between at least two dictionaries of its alphabet"
)
ASSUMPTIONS = [
    "values outside the alphabets and terms deeper than the enumerated depth are not covered",
    "the reference interpreter (labmc/ref.py) is the specification of 'eager Python computation'",
]

CORE = [
    "apply", "bind_src", "bind_res", "switch_disp", "switch_branch", "switch_dflt", "case_disp", "case_branch",
    "coalesce_first", "coalesce_second", "list", "dict", "map_ev", "mapvalues_ev", "fa_kw", "ds_param",
    "ds_dispatch", "ds_overload", "wo_A", "wdo_B",
]


def _listing(depth, contexts=None, leaves=None):
    return [(label, term, spec) for label, term, spec in cat.catalogue(depth, leaves, contexts)]


def cases(tier, seed):
    out = []
    plan = [(0, None), (1, None), (2, None)]
    if tier == "thorough":
        plan.append((3, CORE))
    for depth, ctxs in plan:
        n = sum(1 for _ in cat.catalogue(depth, None, ctxs))
        for a in range(0, n, 40):
            out.append(("batch", depth, ctxs, a, min(n, a + 40)))
    # "the first member that CAN be evaluated", "when the dispatch cannot be evaluated": every term that holds a
    # choice (coalesce / switch / case / overloaded dataset) once more with each of its user callables raising
    # (thorough does NOT widen this pass to all depth-2 contexts: with a lazily evaluated Map / Iter as a coalesce
    # member the reference materialises the member to decide "can be evaluated" while the library, as documented,
    # hands the iterator back unevaluated - a raising body then shows only on iteration, outside evaluate(); the
    # eleven contexts below keep lazy values out of member positions)
    for depth, ctxs in [(1, None), (2, PARTIAL_CTX)]:
        n = sum(1 for _ in cat.catalogue(depth, None, ctxs))
        for a in range(0, n, 40):
            out.append(("partial", depth, ctxs, a, min(n, a + 40)))
    return out


PARTIAL_CTX = ["coalesce_first", "coalesce_second", "coalesce_dom", "switch_disp", "switch_branch", "case_cond", "ds_dispatch",
               "ds_abs_dispatch", "ds_overload", "apply", "ds_param"]
CHOICES = ("coalesce", "switch", "case", "overloaded")


def _has_choice(term):
    from ..terms import dsprops, walk

    for n in walk(term):
        if n[0] in CHOICES:
            return True
        if n[0] == "ds" and dsprops(n)["dispatch"] is not None:
            return True
    return False


def run_partial(case, res):
    import itertools

    from .c06 import all_callables

    _, depth, ctxs, a, b = case
    if ctxs is not None:
        names = {c[0] for c in cat.CONTEXTS}
        ctxs = [c for c in ctxs if c in names]
    for label, term, spec in itertools.islice(cat.catalogue(depth, None, ctxs), a, b):
        if not _has_choice(term):
            continue
        dicts = cat.dictionaries(spec)
        res["terms"] += 1
        for site in sorted(all_callables(term)):
            for exc in ("ValueError", "KeyError"):
                faults = {site: (exc, None)}
                w, obj = make(term, "nocache", faults=faults)
                r = Ref(faults=faults)
                bad = False
                seen = set()
                for o in dicts:
                    w.reset_log()
                    impl = observe(w, lambda: obj.evaluate(o))
                    ref = r.run(term, o)
                    res["evaluations"] += 1
                    seen.add(repr(ref.canon()))
                    d = same_outcome(impl, ref)
                    if d and not bad:
                        bad = True
                        res["failures"].append({
                            "sig": f"C05|partial|{label}|{faults!r}|{o!r}",
                            "what": f"with {site} raising {exc}, {label} under {o!r} does not evaluate to what the eager computation yields",
                            "detail": d + " term=" + short(term, 500),
                            "case": ("partial1", label, term, faults, o)})
                if len(seen) > 1:
                    res["nontrivial"] += 1
                res["outcomes"] += len(seen)
    return res


def check_one(label, term, o):
    w, obj = make(term, "nocache")
    impl = observe(w, lambda: obj.evaluate(o))
    ref = Ref().run(term, o)
    d = same_outcome(impl, ref)
    return impl, ref, d


def run_case(case):
    res = {"failures": [], "evaluations": 0, "terms": 0, "nontrivial": 0, "outcomes": 0, "samples": []}
    if case[0] == "one":
        _, label, term, o = case
        impl, ref, d = check_one(label, term, o)
        res["evaluations"] = 1
        if d:
            res["failures"].append(_fail(label, term, o, d))
        return res
    if case[0] == "partial":
        return run_partial(case, res)
    if case[0] == "partial1":
        _, label, term, faults, o = case
        w, obj = make(term, "nocache", faults=faults)
        d = same_outcome(observe(w, lambda: obj.evaluate(o)), Ref(faults=faults).run(term, o))
        res["evaluations"] = 1
        if d:
            res["failures"].append({"sig": f"C05|partial|{label}|{faults!r}|{o!r}", "what": f"with fault script {faults!r}, {label} under {o!r} does not evaluate to what the eager computation yields", "detail": d, "case": case})
        return res
    if case[0] == "seq":
        # one long-lived (memo-free) object evaluated under a sequence of dictionaries; the last one is judged
        _, label, term, seq = case
        w, obj = make(term, "nocache")
        for si, o in enumerate(seq):
            impl = observe(w, lambda: obj.evaluate(o))
            res["evaluations"] += 1
            if impl.ok and si < len(seq) - 1:
                _scribble(impl.value)
        d = same_outcome(impl, Ref().run(term, seq[-1]))
        if d:
            res["failures"].append(_fail(label, term, seq[-1], d, seq))
        return res
    _, depth, ctxs, a, b = case
    import itertools

    it = itertools.islice(cat.catalogue(depth, None, ctxs), a, b)
    for label, term, spec in it:
        w, obj = make(term, "nocache")
        r = Ref()
        seen = set()
        bad = False
        dicts = cat.dictionaries(spec)
        # the object is long-lived: it is evaluated under every dictionary in turn and (depth <= 1) once more in
        # the opposite order, so an expression that remembers anything between evaluations is observed
        order = list(dicts) + (list(reversed(dicts)) if depth <= 1 else [])
        for oi, o in enumerate(order):
            w.reset_log()
            impl = observe(w, lambda: obj.evaluate(o))
            ref = r.run(term, o)
            res["evaluations"] += 1
            seen.add(repr(ref.canon()))
            d = same_outcome(impl, ref)
            if impl.ok and depth <= 1:
                _scribble(impl.value)  # the caller owns what it got: changing it must not change later results
            if d and not bad:
                bad = True
                if check_one(label, term, o)[2]:
                    res["failures"].append(_fail(label, term, o, d))
                else:  # only reproducible after the evaluations that came before
                    res["failures"].append(_fail(label, term, o, d, order[: oi + 1]))
        res["terms"] += 1
        res["outcomes"] += len(seen)
        if len(seen) > 1:
            res["nontrivial"] += 1
        if a == 0 and len(res["samples"]) < 2 and dicts:
            res["samples"].append({"label": label, "term": short(term, 400), "options": dicts[-1], "ref": repr(r.run(term, dicts[-1]))})
    return res


def _scribble(v, depth=0):
    """modify every mutable container of a returned value in place"""
    if depth > 6:
        return
    if isinstance(v, dict):
        for x in list(v.values()):
            _scribble(x, depth + 1)
        try:
            v["__scribbled__"] = 1
        except TypeError:
            pass
    elif isinstance(v, list):
        for x in v:
            _scribble(x, depth + 1)
        v.append("__scribbled__")
    elif isinstance(v, (tuple, set, frozenset)):
        for x in v:
            _scribble(x, depth + 1)


def _fail(label, term, o, d, seq=None):
    return {
        "sig": f"C05|{label}|{o!r}" + ("|after-earlier-evaluations" if seq else ""),
        "what": f"evaluate differs from the eager reference for {label} under {o!r}" + (f" after {len(seq) - 1} earlier evaluations of the same object" if seq else ""),
        "detail": d + " term=" + short(term, 600),
        "case": ("seq", label, term, list(seq)) if seq else ("one", label, term, o),
    }


def summarize(results, tier):
    ev = sum(r.get("evaluations", 0) for r in results)
    samples = []
    for r in results:
        samples.extend(r.get("samples", []))
    return {
        "evaluations": ev,
        "distinct_nontrivial": sum(r.get("nontrivial", 0) for r in results),
        "terms": sum(r.get("terms", 0) for r in results),
        "distinct_outcomes_total": sum(r.get("outcomes", 0) for r in results),
        "contexts": len(cat.CONTEXTS),
        "leaves": len(cat.LEAVES),
        "max_depth": 3 if tier == "thorough" else 2,
        "samples": samples[:6],
        "exhaustive": True,
    }

RULE += ' Session 4: partial-callable pass - every term that holds a choice (coalesce / switch / case / dispatching dataset), depth 1 completely and depth 2 over 11 choice-bearing contexts (both tiers), with each user callable raising ValueError / KeyError, against the reference run with the same fault script.'
