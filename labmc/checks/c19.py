"""C19 - dataset classes: members are evaluations; equality follows relevant options.

Exhaustive: all dataset classes with 1..3 members drawn from 7 member kinds
(flat / dotted / defaulted Option, dataset, applied Option, constant, inherited
member) x all pairs of dictionaries of the class's key alphabet.
"""
import copy
import itertools

from ..build import observe
from ..optspace import ABSENT, exists, freeze, product_dicts, restrict

ID = "C19"
LEVEL = "exploration"
TECHNIQUE = "exhaustive enumeration of dataset classes x all dictionary pairs against member-wise evaluation and the restricted-dictionary equality rule"
RULE = (
    "member kinds {Option('A'), Option('S.X'), Option('B', 2), dataset reading C, Option('D', 1) >> f, constant, "
    
    "Option('S.W') (second key of the same section), Option('S.Z.K', 0) (deeper key of that section), brace-bearing string constant, "
    "mutable list constant, whole-section Option (re-ordered section), whole section S next to members reading its entries, member inherited from a plain base class}; the dictionary handed to the class is changed by the caller right after instantiation; "
    "all classes with 1..3 distinct kinds (thorough: 1..4); plus a dataset class derived "
    "from another dataset class in three usage orders; dictionaries = product of the "
    "keys the members mention (+ one junk key, + sibling S.Y); for every dictionary: attributes, validate/keys/"
    "explain = union over members, repr; for every ORDERED PAIR: a == b iff restrict(o_a, keys) == restrict(o_b, "
    "keys).  Non-trivial = pairs whose dictionaries differ."
)
ASSUMPTIONS = ["restrict() of labmc/optspace.py defines 'restricted to the keys the class reports'"]

KINDS = ["flat", "flatlonger", "dotted", "dottedlonger", "dotted2", "deep", "defaulted", "ds", "applied", "const", "strconst", "listconst", "wholesect", "sectS", "unannotated", "underscore", "inherited"]
SPEC = {
    "flat": [("A", [1, 2])],
    "dotted": [("S.X", [1, 2]), ("S.Y", [ABSENT, 9])],
    "dotted2": [("S.W", [1, 2])],
    # keys whose NAME merely begins with another member's key (AB / A, S.XY / S.X): different options
    "flatlonger": [("AB", [1, 2])],
    "dottedlonger": [("S.XY", [1, 2])],
    "deep": [("S.Z.K", [ABSENT, 1, 2])],
    "defaulted": [("B", [ABSENT, 2, 3])],
    "ds": [("C", [ABSENT, 4])],
    "applied": [("D", [ABSENT, 5])],
    "const": [],
    "strconst": [],
    "listconst": [],
    "wholesect": [("T", [{"P": 1, "Q": 2}, {"Q": 2, "P": 1}, {"P": 1, "Q": 3}])],
    # the whole section S, next to members that read single entries of it
    "sectS": [("S.Y", [ABSENT, 9])],
    # a member given without an annotation, and one whose name starts with a single underscore
    "unannotated": [("F", [1, 2])],
    "underscore": [("G", [ABSENT, 7])],
    "inherited": [("E", [ABSENT, 6])],
}


def f_tag(x):
    return ("f", x)


def build_class(kinds):
    from labrea import Option, dataset, datasetclass

    def body(c=Option("C", 0)):
        return ("ds", c)

    d = dataset(body)
    members = {
        "flat": Option("A"),
        "dotted": Option("S.X"),
        "dotted2": Option("S.W"),
        "flatlonger": Option("AB"),
        "dottedlonger": Option("S.XY"),
        "deep": Option("S.Z.K", 0),
        "defaulted": Option("B", 2),
        "ds": d,
        "applied": Option("D", 1) >> f_tag,
        "const": 7,
        "strconst": "{A}/{S.X}.csv",
        "listconst": ["raw", {"k": 1}],
        "wholesect": Option("T"),
        "sectS": Option("S", {"none": 0}),
        "unannotated": Option("F"),
        "underscore": Option("G", 0),
    }
    ns = {"__annotations__": {}}
    bases = ()
    for k in kinds:
        if k == "inherited":
            base = type("Base", (), {"__annotations__": {"m_inherited": int}, "m_inherited": Option("E", 5)})
            bases = (base,)
        elif k == "unannotated":
            ns["m_" + k] = members[k]
        elif k == "underscore":
            ns["__annotations__"]["_m_" + k] = int
            ns["_m_" + k] = members[k]
        else:
            ns["__annotations__"]["m_" + k] = int
            ns["m_" + k] = members[k]
    cls = datasetclass(type("DC", bases, ns))
    mem = dict(members)
    mem["inherited"] = Option("E", 5)
    return cls, {k: mem[k] for k in kinds}


def class_dicts(kinds):
    spec = []
    for k in kinds:
        spec.extend(SPEC[k])
    spec.append(("ZZ", [ABSENT, 1]))
    return list(product_dicts(spec))


def cases(tier, seed):
    out = []
    combos = []
    for n in (1, 2, 3) if tier == "quick" else (1, 2, 3, 4):
        combos.extend(itertools.combinations(KINDS, n))
    for a in range(0, len(combos), 4):
        out.append(("classes", [list(c) for c in combos[a : a + 4]]))
    for order in ("parent-first", "child-first", "child-only"):
        out.append(("derived", order))
    return out


def check_class(kinds, res):
    from labrea.types import Evaluatable

    fails = []
    reported = set()

    def fail(kind, d, o):
        if kind in reported:
            return
        reported.add(kind)
        fails.append({"sig": f"C19|{kind}|{kinds}|{o!r}", "what": f"{kind}: dataset class with members {kinds} under {o!r}", "detail": d, "case": ("class", list(kinds))})

    cls, members = build_class(kinds)
    # what the plain members were when the class was defined (the class holds the very same objects)
    constants = {k: copy.deepcopy(m) for k, m in members.items() if not isinstance(m, Evaluatable)}
    dicts = class_dicts(kinds)
    insts = []
    for o in dicts:
        res["evaluations"] += 1
        # the caller keeps using (and changing) the dictionary it passed: the instance was built from what
        # the dictionary held at that moment
        handed = copy.deepcopy(o)
        inst = observe(None, lambda: cls(handed), materialise=False)
        _wreck(handed)
        via_eval = observe(None, lambda: cls.evaluate(copy.deepcopy(o)), materialise=False)
        if not inst.ok:
            fail("instantiation-failed", repr(inst), o)
            continue
        obj = inst.value
        # members
        union_keys = set()
        union_explain = set()
        for k, m in members.items():
            attr = getattr(obj, ("_m_" if k == "underscore" else "m_") + k)
            if isinstance(m, Evaluatable):
                want = m.evaluate(copy.deepcopy(o))
                union_keys |= set(m.keys(copy.deepcopy(o)))
                union_explain |= set(m.explain(copy.deepcopy(o)))
                try:
                    m.validate(copy.deepcopy(o))
                except Exception as e:  # noqa
                    fail("member-validate-failed", repr(e), o)
            else:
                want = constants[k]
            if freeze(attr) != freeze(want):
                fail("attribute-differs-from-member-evaluation", f"{k}: {attr!r} vs {want!r}", o)
        ks = observe(None, lambda: cls.keys(copy.deepcopy(o)))
        ex = observe(None, lambda: cls.explain(copy.deepcopy(o)))
        va = observe(None, lambda: cls.validate(copy.deepcopy(o)))
        if not ks.ok or set(ks.value) != union_keys:
            fail("keys-not-the-union-of-members", f"{ks!r} vs {sorted(union_keys)}", o)
        if not ex.ok or set(ex.value) != union_explain:
            fail("explain-not-the-union-of-members", f"{ex!r} vs {sorted(union_explain)}", o)
        if not va.ok:
            fail("validate-failed", repr(va), o)
        r = restrict(o, union_keys)
        want_repr = f"DC({_ordered(r, union_keys)!r})"
        got_repr = observe(None, lambda: repr(obj), materialise=False)
        if not got_repr.ok:
            fail("repr-raised", repr(got_repr), o)
        elif got_repr.value != want_repr:
            fail("repr", f"{got_repr.value} vs {want_repr}", o)
        same = observe(None, lambda: via_eval.value == obj, materialise=False) if via_eval.ok else None
        if same is not None and (not same.ok or not same.value):
            fail("evaluate-differs-from-instantiation", f"cls.evaluate(o) == cls(o) gives {same!r}", o)
        if via_eval.ok:
            # an evaluation of the class yields a new instance every time: what a holder does to the members of
            # one instance is not seen by the next evaluation
            for k in members:
                v = getattr(via_eval.value, ("_m_" if k == "underscore" else "m_") + k)
                if isinstance(v, list):
                    v.append("scribble")
                elif isinstance(v, dict):
                    v["scribble"] = 1
            second = observe(None, lambda: cls.evaluate(copy.deepcopy(o)), materialise=False)
            if second.ok:
                for k, m in members.items():
                    attr = getattr(second.value, ("_m_" if k == "underscore" else "m_") + k)
                    want = m.evaluate(copy.deepcopy(o)) if isinstance(m, Evaluatable) else constants[k]
                    if freeze(attr) != freeze(want):
                        fail("second-evaluation-of-the-class-differs", f"{k}: {attr!r} vs {want!r}", o)
            else:
                fail("second-evaluation-of-the-class-failed", repr(second), o)
        insts.append((o, obj, freeze(r)))
        # an instance owns its values: changing them in place must not leak into the class or other instances
        for k in members:
            v = getattr(obj, ("_m_" if k == "underscore" else "m_") + k)
            if isinstance(v, list):
                v.append("scribble")
            elif isinstance(v, dict):
                v["scribble"] = 1
    for (oa, a, ra), (ob, b, rb) in itertools.product(insts, repeat=2):
        res["pairs"] += 1
        if freeze(oa) != freeze(ob):
            res["nontrivial"] += 1
        eqo = observe(None, lambda: a == b, materialise=False)
        if not eqo.ok:
            fail("equality-raised", repr(eqo), (oa, ob))
            continue
        eq = eqo.value
        if eq != (ra == rb):
            fail("equality", f"{oa!r} vs {ob!r}: == is {eq}, restricted dictionaries {'equal' if ra == rb else 'differ'}", (oa, ob))
    return fails


def _wreck(d):
    """the caller's later use of its own dictionary (a parameter sweep re-using one dict): top-level entries are
    re-assigned to new values, removed and added.  Values are replaced, never modified in place: whether an
    instance may share a nested section object with the caller is not something the property settles."""
    for k in list(d):
        d[k] = ("later", repr(d[k]))
    for k in list(d)[::2]:
        del d[k]
    d["added-later"] = 1


def check_derived(order, res):
    """A dataset class derived from another dataset class: the child's validate/keys/explain/==/repr
    cover the parent's members AND its own, whichever of the two classes is used first."""
    from labrea import Option, datasetclass

    fails = []
    from labrea import dataset

    ran = []

    def parent_only(x=Option("P.X")):
        ran.append(x)
        return ("parent-only", x)

    # "o" and "d" are overridden by the child: the parent's versions (an option that is never supplied, a
    # dataset whose body is counted) are not members of the child and must not be evaluated for it
    Parent = datasetclass(type("Parent", (), {"__annotations__": {"p": int, "o": int, "k": int, "d": int}, "p": Option("P.X"), "o": Option("NEVER"), "k": 1,
                                              "d": dataset(parent_only), "u": Option("NEVER2")}))
    # the child adds a member and overrides two inherited ones (an evaluatable and a constant)
    Child = datasetclass(type("Child", (Parent,), {"__annotations__": {"c": int, "o": int, "k": int, "d": int}, "c": Option("C.Y", 0), "o": Option("P.X") >> f_tag, "k": 2,
                                                   "d": Option("P.X") >> f_tag, "u": 5}))
    # "u": an UN-annotated evaluatable member of the parent, replaced in the child by an un-annotated plain constant
    dicts = [{"P": {"X": x}, **({"C": {"Y": y}} if y is not None else {})} for x in (1, 2) for y in (None, 5, 6)]
    if order == "parent-first":
        for o in dicts:
            po = dict(o, NEVER=0, NEVER2=0)
            Parent(po), Parent.keys(po), Parent.explain(po), Parent.validate(po)
    if order == "child-first":
        Child(dicts[1])
        for o in dicts:
            po = dict(o, NEVER=0, NEVER2=0)
            Parent(po), Parent.keys(po)

    def fail(kind, d, o):
        if not any(f["sig"].startswith(f"C19|derived|{kind}") for f in fails):
            fails.append({"sig": f"C19|derived|{kind}|{order}|{o!r}", "what": f"{kind}: dataset class derived from a dataset class ({order}) under {o!r}", "detail": d, "case": ("derived", order)})

    insts = []
    for o in dicts:
        res["evaluations"] += 1
        want_keys = {"P.X"} | ({"C.Y"} if "C" in o else set())
        ks = observe(None, lambda: Child.keys(copy.deepcopy(o)))
        if not ks.ok or set(ks.value) != want_keys:
            fail("keys-not-the-union-of-members", f"{ks!r} vs {sorted(want_keys)}", o)
        ex = observe(None, lambda: Child.explain(copy.deepcopy(o)))
        if not ex.ok or set(ex.value) != want_keys:
            fail("explain-not-the-union-of-members", f"{ex!r} vs {sorted(want_keys)}", o)
        inst = observe(None, lambda: Child(copy.deepcopy(o)), materialise=False)
        if not inst.ok:
            fail("instantiation-failed", repr(inst), o)
            continue
        obj = inst.value
        if ran and order == "child-only":
            fail("overridden-parent-member-was-evaluated", f"the body of the parent's dataset member ran {len(ran)}x although the child overrides that member", o)
        if obj.p != o["P"]["X"] or obj.c != o.get("C", {}).get("Y", 0) or obj.o != ("f", o["P"]["X"]) or obj.k != 2 or obj.d != ("f", o["P"]["X"]) or obj.u != 5:
            fail("attribute-differs-from-member-evaluation", f"p={obj.p!r} c={obj.c!r} o={obj.o!r} k={obj.k!r} u={obj.u!r}", o)
        r = restrict(o, want_keys)
        if repr(obj) != f"Child({_ordered(r, want_keys)!r})":
            fail("repr", f"{repr(obj)} vs Child({_ordered(r, want_keys)!r})", o)
        insts.append((o, obj, freeze(r)))
    for (oa, a, ra), (ob, b, rb) in itertools.product(insts, repeat=2):
        res["pairs"] += 1
        res["nontrivial"] += 1
        if (a == b) != (ra == rb):
            fail("equality", f"{oa!r} vs {ob!r}: == is {a == b}", (oa, ob))
    return fails


def _ordered(r, keys):
    """The restricted dictionary laid out as set_dotted_key would, in sorted key order."""
    from ..optspace import lookup, set_path

    out = {}
    for k in sorted(keys):
        if exists(r, k):
            set_path(out, k, copy.deepcopy(lookup(r, k)))
    return out


def run_case(case):
    res = {"failures": [], "evaluations": 0, "nontrivial": 0, "pairs": 0, "samples": [], "classes": 0}
    if case[0] == "class":
        res["failures"] = check_class(tuple(case[1]), res)
        return res
    if case[0] == "derived":
        res["failures"] = check_derived(case[1], res)
        res["classes"] = 2
        return res
    for kinds in case[1]:
        res["classes"] += 1
        res["failures"].extend(check_class(tuple(kinds), res))
    if case[1][0] == ["flat"]:
        res["samples"].append({"members": ["flat", "dotted", "ds"], "dictionaries": len(class_dicts(("flat", "dotted", "ds"))), "example_pair": [{"A": 1, "S": {"X": 1}}, {"A": 1, "S": {"X": 2}}]})
    return res


def summarize(results, tier):
    tot = lambda k: sum(r.get(k, 0) for r in results)  # noqa
    samples = []
    for r in results:
        samples.extend(r.get("samples", []))
    return {
        "evaluations": tot("evaluations") + tot("pairs"),
        "distinct_nontrivial": tot("nontrivial"),
        "instances": tot("evaluations"),
        "ordered_pairs": tot("pairs"),
        "classes": tot("classes"),
        "max_members": 3 if tier == "quick" else 4,
        "samples": samples[:4],
        "exhaustive": True,
    }

RULE += " Session 4: members whose key names merely begin with another member's key; an un-annotated evaluatable parent member replaced by an un-annotated constant in the child."
