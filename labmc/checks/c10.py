"""C10 - validate, keys and evaluate agree about whether options suffice.

Exhaustive over catalogue terms x dictionary alphabets x cache warmth (cold,
warmed with the same dictionary, warmed with every other dictionary of the
alphabet), on one long-lived cached build whose cache contents are restored
exactly between cases; a second pass makes every user callable of the term
raise in turn.
"""
import copy
import itertools

from .. import catalogue as cat
from ..build import World, cause_chain, make, observe
from ..common import short
from ..kripke import CacheSystem
from ..ref import Ref

ID = "C10"
LEVEL = "exploration"
TECHNIQUE = "exhaustive enumeration of terms x dictionaries x cache warmth with the three operations run on the real objects; fault pass per user callable"
RULE = (
    "terms = contexts^d x leaves (d<=1 with all warm-ups and faults, d=2 cold quick; "
    "thorough: d=2 with same-dictionary warm-up, all warm-ups + faults at d=2 over the core contexts, d=3 cold over 12 core contexts); total pass: validate/keys/evaluate succeed or fail "
    "together (dictionaries with an out-of-domain value excluded, as the property conditions on in-domain values); "
    "no dataset body runs during validate/keys unless the reference marks it as needed to choose a branch; fault "
    "pass: each body/step/predicate/effect raises always or on one argument value, and a passing validate(o) must not "
    "be followed by an evaluate(o) failure whose cause chain holds a missing-key error.  Non-trivial = (term, o) "
    "where the three operations fail, or a fault changes evaluate's outcome."
)
ASSUMPTIONS = ["warm-ups are single earlier evaluations (cache states reachable by one evaluation), longer histories are C01's"]
CORE = [
    "apply", "bind_src", "bind_res", "switch_disp", "switch_branch", "case_disp", "case_cond", "coalesce_first",
    "coalesce_second", "list", "map_ev", "map_iter", "fa_kw", "ds_param", "ds_dispatch", "ds_overload", "wo_A", "wdo_B",
    "cached", "tmpl_param", "opt_default",
]


def _leaves(depth, tier):
    return cat.QUICK2_LEAVES if (tier == "quick" and depth >= 2) else None


def _tier_of(case):
    return "thorough" if "thorough" in case else "quick"


def cases(tier, seed):
    out = [("extra",)]
    plan = [(0, None, "all"), (1, None, "all"), (2, None, "cold" if tier == "quick" else "same")]
    if tier == "thorough":
        plan.append((2, CORE, "all"))
        plan.append((3, CORE[:12], "cold"))
    for depth, ctxs, warm in plan:
        n = sum(1 for _ in cat.catalogue(depth, _leaves(depth, tier), ctxs))
        step = 10 if (warm == "all" and depth >= 1) else 40
        for a in range(0, n, step):
            out.append(("batch", depth, ctxs, a, min(n, a + step), warm, tier))
    return out


def has_missing(exc, world):
    from labrea.exceptions import KeyNotFoundError

    raised = set(map(id, world.raised))
    return any(isinstance(e, KeyNotFoundError) and id(e) not in raised for e in cause_chain(exc))


def three(w, obj, o):
    w.reset_log()
    v = observe(w, lambda: obj.validate(copy.deepcopy(o)))
    vlog = [e for e in w.log if e[0] == "body"]
    w.reset_log()
    k = observe(w, lambda: obj.keys(copy.deepcopy(o)))
    klog = [e for e in w.log if e[0] == "body"]
    w.reset_log()
    e = observe(w, lambda: obj.evaluate(copy.deepcopy(o)))
    return v, k, e, vlog, klog


def callables(term):
    from .c06 import all_callables

    return sorted(all_callables(term))


def check_term(label, term, dicts, warm, res, faults_pass=True, keys_exempt=False):
    fails = []
    reported = set()

    def fail(kind, o, d, extra=None):
        if kind in reported:
            return
        reported.add(kind)
        fails.append({"sig": f"C10|{kind}|{label}|{o!r}|{extra!r}", "what": f"{kind}: {label} under {o!r}" + (f" ({extra})" if extra else ""),
                      "detail": d + " term=" + short(term, 400), "case": ("one", label, term, dicts, warm, faults_pass, keys_exempt)})

    from .c06 import syntactic_structural

    syn = syntactic_structural(term)
    w, obj = make(term, "cached")
    system = CacheSystem(w)
    empty = system.snapshot()
    r = Ref()
    refs = []
    for o in dicts:
        out = r.run(term, o)
        refs.append((out, set(r.structural)))
    warm_states = [("cold", empty)]
    if warm in ("same", "all"):
        for j, o in enumerate(dicts):
            if warm == "same":
                continue
            system.restore(empty)
            observe(w, lambda: obj.evaluate(copy.deepcopy(o)))
            warm_states.append((f"warm:{o!r}", system.snapshot()))
    for j, o in enumerate(dicts):
        out, structural = refs[j]
        in_domain = not (not out.ok and out.kind == "domain")
        states = list(warm_states)
        if warm == "same":
            system.restore(empty)
            observe(w, lambda: obj.evaluate(copy.deepcopy(o)))
            states.append((f"warm:{o!r}", system.snapshot()))
        for wname, snap in states:
            system.restore(snap)
            v, k, e, vlog, klog = three(w, obj, o)
            res["evaluations"] += 1
            if not e.ok:
                res["nontrivial"] += 1
            if in_domain and keys_exempt and warm == "cold" and wname == "cold":
                # an option read only by an EFFECT is not part of keys() (effects do not run on a cache hit, so
                # the stored value does not depend on it): only validate and evaluate are compared
                if v.ok != e.ok:
                    fail("disagree", o, f"[{wname}] validate={v!r} evaluate={e!r}", wname)
            elif in_domain and not keys_exempt and not (v.ok == k.ok == e.ok):
                fail("disagree", o, f"[{wname}] validate={v!r} keys={k!r} evaluate={e!r}", wname)
            for name, lg in (("validate", vlog), ("keys", klog)):
                extra = [ev for ev in lg if ev not in structural and ev not in syn]
                if extra:
                    fail(f"{name}-ran-a-body", o, f"[{wname}] {extra} ran; needed to choose a branch: {sorted(structural)}", wname)
    if not faults_pass:
        return fails
    # fault pass: each user callable raises (always / on one argument value)
    for kind, name in callables(term):
        if kind not in ("body", "fn", "pred", "effect"):
            continue
        for when in (None, 1):
            faults = {(kind, name): ("ValueError", when)}
            wf, objf = make(term, "cached", faults=faults)
            sysf = CacheSystem(wf)
            emptyf = sysf.snapshot()
            for o in dicts:
                sysf.restore(emptyf)
                wf.reset_log()
                v = observe(wf, lambda: objf.validate(copy.deepcopy(o)))
                wf_raised_before = len(wf.raised)
                e = observe(wf, lambda: objf.evaluate(copy.deepcopy(o)))
                res["evaluations"] += 1
                if v.ok and not e.ok:
                    res["nontrivial"] += 1
                    if has_missing(e.exc, wf):
                        fail("validate-passed-but-evaluate-misses-an-option", o, f"fault={faults} validate ok, evaluate={e!r}", repr(faults))
    return fails


def run_case(case):
    res = {"failures": [], "evaluations": 0, "nontrivial": 0, "terms": 0, "samples": []}
    if case[0] == "one":
        _, label, term, dicts, warm = case[:5]
        res["failures"] = check_term(label, term, dicts, warm, res, *case[5:7])
        return res
    if case[0] == "extra":
        # effects whose own parameters are options, with the effects switch in the dictionary (c11.extra_terms):
        # one long-lived object sees every dictionary in turn
        from .c11 import extra_terms

        for label, term, spec in extra_terms():
            dicts = cat.dictionaries(spec)
            res["terms"] += 1
            # cold caches only: with a warm cache evaluate() legitimately succeeds (a hit runs no effect) where
            # validate() still asks for the effect's option
            res["failures"].extend(check_term(label, term, dicts, "cold", res, faults_pass=False, keys_exempt=True))
            res["failures"].extend(check_term(label + ":reversed", term, list(reversed(dicts)), "cold", res, faults_pass=False, keys_exempt=True))
        return res
    _, depth, ctxs, a, b, warm = case[:6]
    for label, term, spec in itertools.islice(cat.catalogue(depth, _leaves(depth, _tier_of(case)), ctxs), a, b):
        dicts = cat.dictionaries(spec)
        res["terms"] += 1
        res["failures"].extend(check_term(label, term, dicts, warm, res, faults_pass=(depth <= 1 or warm == "all")))
        if a == 0 and depth == 1 and len(res["samples"]) < 2:
            res["samples"].append({"label": label, "term": short(term, 300), "dictionaries": len(dicts), "warmth": warm})
    return res


def summarize(results, tier):
    tot = lambda k: sum(r.get(k, 0) for r in results)  # noqa
    samples = []
    for r in results:
        samples.extend(r.get("samples", []))
    return {
        "evaluations": tot("evaluations"),
        "distinct_nontrivial": tot("nontrivial"),
        "terms": tot("terms"),
        "samples": samples[:5],
        "exhaustive": True,
    }
