"""C15 - threads: handler contexts are thread-local; concurrent register/evaluate safe.

Stateless exploration of the real code under the controlled scheduler of
labmc/sched.py: every schedule of small multi-thread harnesses up to a
preemption bound, at bytecode / line granularity inside the functions that
touch shared state.
"""
import sys
import threading

from ..sched import Scheduler, explore

ID = "C15"
LEVEL = "model_checking"
TECHNIQUE = "stateless schedule exploration (iterative preemption bounding) of real threads under a cooperative scheduler with bytecode-level scheduling points"
RULE = (
    "harnesses H1 own runtimes, H2 shared runtime object (one thread nested in its own outer runtime), H3 inherit() "
    "racing with the parent's enter/exit, H4 concurrent register (2 writers + 1 reader; also 3 writers), H5 two "
    "evaluations of one cached dataset (different / equal dictionaries), H6 late default registration vs. a new "
    "thread's first request, H7 two evaluations of one cached dataset whose backend misbehaves (all 64 scripts over {behave, miss, "
    "lie-exists, forget} for the first 3 backend calls; B=1 at line granularity in the quick tier), and sequential scenarios (three-generation inherit with the parent "
    "finished and unrelated threads in between; a long-lived pool worker that calls inherit() once per task); all schedules with at most B preemptions: quick B=2 at line granularity and B=1 at "
    "bytecode granularity, thorough B=3 line / B=2 bytecode.  An execution is non-trivial when it contains at least "
    "one preemption; distinct_nontrivial counts distinct preempting schedules."
)
ASSUMPTIONS = [
    "CPython with the GIL: thread switches happen between bytecodes; C-level dict operations are atomic",
    "scheduling points: every bytecode (or line) of every function defined in labrea/runtime.py (runtime harnesses), labrea/overload.py (register harnesses) or labrea/cache.py (cached-evaluation harnesses); lock acquisitions; elsewhere threads run atomically",
    "labrea.runtime.lock, Overloaded._lock and every Lock / RLock / Event / Condition that a labrea module holds in a module-level name or creates while a harness runs are replaced from the harness by scheduler-aware ones (a waiting thread is disabled; a timeout expires only when nothing else can run)",
]
CHUNK = 1


def _targets(gran, group):
    """Scheduling points by SOURCE FILE: every function of the file (including helpers that a change may
    add) is traced at the chosen granularity."""
    import labrea.cache as lc
    import labrea.overload as lo
    import labrea.runtime as rt

    import labrea.conditional as cond

    # the overload table is read by the Switch that an evaluation builds from it (labrea/conditional.py)
    files = {"runtime": [rt.__file__], "overload": [lo.__file__, cond.__file__], "cache": [lc.__file__]}[group]
    if gran == "opcode":
        return dict(opcode_files=files)
    return dict(line_files=files)


class _ThreadingProxy:
    """Stands in for the ``threading`` module inside a labrea module: every lock the library creates
    while a harness runs is a scheduler-aware lock (a real one would block the thread holding the baton)."""

    def __init__(self, sched, real, point):
        self.__dict__["_sched"] = sched
        self.__dict__["_real"] = real
        self.__dict__["_point"] = point

    def Lock(self):
        return self._sched.lock("library-created lock", point=self._point)

    RLock = Lock

    def Event(self):
        return self._sched.event("library-created event")

    def Condition(self, lock=None):
        return self._sched.condition(lock, "library-created condition")

    def __getattr__(self, name):
        return getattr(self._real, name)


class Env:
    """Fresh objects for one execution."""

    def __init__(self, sched, group="runtime"):
        import labrea.overload as lo
        import labrea.runtime as rt

        self.rt = rt
        self.sched = sched
        self.saved_lock = rt.lock
        self.saved_modlock = lo._MODULE_LOCK
        # every request takes runtime.lock once (current_runtime); only the runtime harnesses make
        # that acquisition a scheduling point, the others would drown in them
        rt.lock = sched.lock("runtime.lock", point=(group == "runtime"))
        lo._MODULE_LOCK = sched.lock("overload._MODULE_LOCK", point=(group == "overload"))
        import labrea.cache as lc

        self.saved_threading = {}
        for m, grp in ((lo, "overload"), (rt, "runtime"), (lc, "cache")):
            if hasattr(m, "threading"):
                self.saved_threading[m] = m.threading
                m.threading = _ThreadingProxy(sched, m.threading, point=(group == grp))
        # synchronisation primitives (and their factories) bound to module-level names of any labrea
        # module: a real one would block the thread that holds the baton
        self.saved_globals = []
        real_lock_types = (type(threading.Lock()), type(threading.RLock()))
        proxy = _ThreadingProxy(sched, threading, point=False)
        factories = {threading.Lock: proxy.Lock, threading.RLock: proxy.RLock, threading.Event: proxy.Event,
                     threading.Condition: proxy.Condition}
        for mname, m in list(sys.modules.items()):
            if not (mname == "labrea" or mname.startswith("labrea.")) or m is None:
                continue
            for gname, val in list(vars(m).items()):
                if gname in ("lock", "_MODULE_LOCK") and m in (rt, lo):
                    continue  # handled above
                new = None
                if isinstance(val, real_lock_types):
                    new = sched.lock(f"{mname}.{gname}", point=False)
                elif isinstance(val, threading.Event):
                    new = sched.event(f"{mname}.{gname}")
                elif isinstance(val, threading.Condition):
                    new = sched.condition(None, f"{mname}.{gname}")
                elif val is threading and gname != "threading":
                    new = proxy
                else:
                    try:
                        new = factories.get(val)
                    except TypeError:
                        new = None
                if new is not None:
                    self.saved_globals.append((m, gname, val))
                    setattr(m, gname, new)
        self.saved_locks = dict(lo._LOCKS)
        lo._LOCKS.clear()

        class T(rt.Request):
            def __init__(self):
                self.options = {}

        class T2(rt.Request):
            def __init__(self):
                self.options = {}

        self.T, self.T2 = T, T2
        rt._DEFAULT_HANDLERS[T] = self.tag("d")

    @staticmethod
    def tag(t):
        def h(request):
            return t

        h.__name__ = "h_" + t
        return h

    def run(self, T=None):
        try:
            return (T or self.T)().run()
        except TypeError:
            return "TypeError"

    def close(self):
        import labrea.overload as lo

        rt = self.rt
        rt.lock = self.saved_lock
        lo._MODULE_LOCK = self.saved_modlock
        for m, real in self.saved_threading.items():
            m.threading = real
        for m, gname, val in self.saved_globals:
            setattr(m, gname, val)
        lo._LOCKS.clear()
        lo._LOCKS.update(self.saved_locks)
        for t in self.sched.threads:
            rt._RUNTIMES.pop(t["thread"], None)
        rt._DEFAULT_HANDLERS.pop(self.T, None)
        rt._DEFAULT_HANDLERS.pop(self.T2, None)


def h1(env):
    """two threads, each entering its own derived runtime"""
    rt = env.rt
    logs = {}
    expect = {}
    for i, tag in enumerate(("hA", "hB")):
        r = rt.Runtime().handle(env.T, env.tag(tag))
        logs[i] = []
        expect[i] = ["d", tag, "d"]

        def fn(r=r, log=logs[i]):
            log.append(env.run())
            with r:
                log.append(env.run())
            log.append(env.run())

        env.sched.spawn(fn)

    def verdict():
        return [f"thread {i} observed {logs[i]} expected {expect[i]}" for i in logs if logs[i] != expect[i]]

    return verdict


def h2(env):
    """both threads enter the SAME runtime object; thread 1 does so inside its own outer runtime"""
    rt = env.rt
    R = rt.Runtime().handle(env.T, env.tag("hR"))
    Q = rt.Runtime().handle(env.T, env.tag("hQ"))
    logs = {0: [], 1: []}
    expect = {0: ["hR", "d"], 1: ["hQ", "hR", "hQ", "d"]}

    def f0():
        with R:
            logs[0].append(env.run())
        logs[0].append(env.run())

    def f1():
        with Q:
            logs[1].append(env.run())
            with R:
                logs[1].append(env.run())
            logs[1].append(env.run())
        logs[1].append(env.run())

    env.sched.spawn(f0)
    env.sched.spawn(f1)

    def verdict():
        return [f"thread {i} observed {logs[i]} expected {expect[i]}" for i in logs if logs[i] != expect[i]]

    return verdict


def h3(env):
    """parent enters / exits a runtime while the worker inherits from it"""
    rt = env.rt
    P = rt.Runtime().handle(env.T, env.tag("hP"))
    sched = env.sched
    timeline = []  # (start_step, end_step, state_after)
    w = {}

    def parent():
        s = sched.step
        P.__enter__()
        timeline.append((s, sched.step, "hP"))
        s = sched.step
        P.__exit__(None, None, None)
        timeline.append((s, sched.step, "d"))

    prec = sched.spawn(parent)

    def worker():
        w["s"] = sched.step
        rt.inherit(prec["thread"])
        w["e"] = sched.step
        w["got"] = env.run()
        w["again"] = env.run()

    sched.spawn(worker)

    def verdict():
        out = []
        if "got" not in w:
            return ["worker did not finish"]
        states = [(-1, -1, "d")] + timeline
        allowed = set()
        for k, (ps, pe, st) in enumerate(states):
            took_effect_by = ps  # could have taken effect as early as its start
            nxt_latest = states[k + 1][1] if k + 1 < len(states) else 10**9
            if took_effect_by <= w["e"] and nxt_latest >= w["s"]:
                allowed.add(st)
        if w["got"] not in allowed:
            out.append(f"worker inherited {w['got']!r}; parent had {sorted(allowed)} during the inherit() call (timeline {timeline}, call {w['s']}..{w['e']})")
        if w["again"] != w["got"]:
            out.append(f"worker's handler changed from {w['got']!r} to {w['again']!r} without the worker doing anything")
        return out

    return verdict


def _dataset(env, name="ds"):
    from labrea import Option, dataset

    def body(x=Option("X", 0)):
        return ("body", x)

    d = dataset(body, dispatch="D")
    d.overloads._lock = env.sched.lock("Overloaded._lock")
    return d


def h4(env, writers=2, reader=True):
    """concurrent register on one dataset, plus a reader evaluating"""
    from labrea import Value
    from labrea.cache import NoCache

    d = _dataset(env)
    d.set_cache(NoCache())
    aliases = ["a", "b", "c"][:writers]
    res = {}
    for al in aliases:
        env.sched.spawn(lambda al=al: d.register(al, Value("impl-" + al)))
    if reader:

        def read():
            res["r"] = d.evaluate({"D": "a", "X": 1})

        env.sched.spawn(read)

    def verdict():
        out = []
        missing = [a for a in aliases if a not in d.overloads.lookup]
        if missing:
            out.append(f"registrations lost: {missing} not in {sorted(d.overloads.lookup)}")
        if reader and res.get("r") not in ("impl-a", ("body", 1)):
            out.append(f"reader got {res.get('r')!r}")
        for a in aliases:
            try:
                v = d.evaluate({"D": a})
            except Exception as e:  # noqa
                v = repr(e)
            if v != "impl-" + a:
                out.append(f"after the threads finished, D={a} evaluates to {v!r}")
        return out

    return verdict


def h4_overload(env):
    """overload decorator with a list alias racing with register"""
    from labrea import Value
    from labrea.cache import NoCache

    d = _dataset(env)
    d.set_cache(NoCache())

    def impl():
        return "impl-list"

    env.sched.spawn(lambda: d.overload(["a", "b"])(impl))
    env.sched.spawn(lambda: d.register("c", Value("impl-c")))

    def verdict():
        out = []
        missing = [a for a in ("a", "b", "c") if a not in d.overloads.lookup]
        if missing:
            out.append(f"registrations lost: {missing} not in {sorted(d.overloads.lookup)}")
        return out

    return verdict


def h5(env, same=False):
    """two threads evaluate one cached dataset"""
    from labrea import Option, dataset

    calls = []

    def body(x=Option("X")):
        calls.append(x)
        return ("body", x)

    d = dataset(body)
    opts = [{"X": 1, "J": 0}, {"X": 1, "J": 1}] if same else [{"X": 1}, {"X": 2}]
    res = {}
    for i, o in enumerate(opts):
        env.sched.spawn(lambda i=i, o=o: res.__setitem__(i, d.evaluate(o)))

    def verdict():
        out = []
        for i, o in enumerate(opts):
            if res.get(i) != ("body", o["X"]):
                out.append(f"thread {i} evaluated {o} and got {res.get(i)!r}")
        # afterwards the cache serves the right values too
        for o in opts:
            v = d.evaluate(o)
            if v != ("body", o["X"]):
                out.append(f"after the threads finished {o} evaluates to {v!r}")
        return out

    return verdict


def h7(env, script):
    """two threads evaluate one cached dataset (same dictionary) whose backend misbehaves per script"""
    from labrea import Option, dataset

    from .c17 import make_backend

    counter = {"calls": 0, "faults": 0, "trace": []}
    backend = make_backend(script, "own-exists", counter)

    def body(x=Option("X")):
        return ("body", x)

    d = dataset(body, cache=backend)
    res = {}

    def ev(i):
        try:
            res[i] = d.evaluate({"X": 1})
        except Exception as e:  # noqa  an observation
            res[i] = f"{type(e).__name__}: {e}"[:120]

    for i in (0, 1):
        env.sched.spawn(lambda i=i: ev(i))

    def verdict():
        out = []
        for i in (0, 1):
            if res.get(i) != ("body", 1):
                out.append(f"thread {i} got {res.get(i)!r} from a backend following script {script}")
        try:
            v = d.evaluate({"X": 1})
        except Exception as e:  # noqa
            v = f"{type(e).__name__}"
        if v != ("body", 1):
            out.append(f"after the threads finished the dataset evaluates to {v!r}")
        return out

    return verdict


def h6(env):
    """late default registration racing with the first request of a new thread"""
    rt = env.rt
    res = {}
    env.sched.spawn(lambda: rt.handle_by_default(env.T2, env.tag("d2")))
    env.sched.spawn(lambda: res.__setitem__("r", env.run(env.T2)))
    env.sched.spawn(lambda: res.__setitem__("t", env.run(env.T)))

    def verdict():
        out = []
        if res.get("r") not in ("d2", "TypeError"):
            out.append(f"T2 request got {res.get('r')!r}")
        if res.get("t") != "d":
            out.append(f"T request got {res.get('t')!r}")
        if env.run(env.T2) != "d2":
            out.append("default not registered afterwards")
        return out

    return verdict


HARNESSES = {
    "H1-own-runtimes": (h1, "runtime"),
    "H2-shared-runtime-object": (h2, "runtime"),
    "H3-inherit-vs-parent": (h3, "runtime"),
    "H4-register-2w+reader": (lambda env: h4(env, 2, True), "overload"),
    "H4-register-2w": (lambda env: h4(env, 2, False), "overload"),
    "H4-register-3w": (lambda env: h4(env, 3, False), "overload"),
    "H4-overload-list-vs-register": (h4_overload, "overload"),
    "H5-cached-different": (lambda env: h5(env, False), "cache"),
    "H5-cached-equal": (lambda env: h5(env, True), "cache"),
    "H6-late-default": (h6, "runtime"),
}
# H7: every script over {behave, miss, lie-exists, forget} for the first 3 backend calls
for _s in ("".join(x) for x in __import__("itertools").product("BMLF", repeat=3)):
    HARNESSES["H7-flaky-backend-" + _s] = ((lambda env, _s=_s: h7(env, _s)), "cache")


def run_once(hname, gran, prefix):
    fn, group = HARNESSES[hname]
    sched = Scheduler(prefix=prefix, **_targets(gran, group))
    env = Env(sched, group)
    try:
        verdict = fn(env)
        sched.run()
        fails = []
        if sched.fault is not None:
            raise RuntimeError(f"harness fault in {hname}/{gran} prefix={prefix}: {sched.fault}")
        if sched.deadlock:
            fails.append("deadlock: no enabled thread but not all threads finished")
        for t in sched.threads:
            if t["exc"] is not None:
                fails.append(f"thread {t['id']} raised {type(t['exc']).__name__}: {t['exc']}")
        if not sched.deadlock:
            fails.extend(verdict())
        return list(sched.points), list(sched.choices), fails
    finally:
        env.close()


_WARM = set()


def _warm():
    """CPython 3.12 instruments a code object for opcode events the first time a frame of it
    asks for them, and delivers them only from the next execution on: run every harness once
    per process and granularity before any execution that counts."""
    import os

    if os.getpid() in _WARM:
        return
    for hname in HARNESSES:
        for gran in ("opcode", "line", "opcode"):
            run_once(hname, gran, [])
    _WARM.clear()
    _WARM.add(os.getpid())


def _plan(tier):
    if tier == "quick":
        return [("line", 2), ("opcode", 1)]
    return [("line", 3), ("opcode", 2)]


def cases(tier, seed):
    out = [("sequential",)]
    _warm()
    for hname in HARNESSES:
        for gran, bound in _plan(tier):
            if hname.startswith("H7-"):
                if gran == "opcode" and tier == "quick":
                    continue
                bound = 1 if tier == "quick" else min(bound, 2 if gran == "line" else 1)
            if gran == "opcode" and hname == "H4-register-2w":
                bound = max(bound, 2)  # the shortest harness: two preemptions at bytecode level on every run
            # root execution gives the first-level alternatives; each is a complete sub-tree
            points, choices, fails = run_once(hname, gran, [])
            out.append(("root", hname, gran))
            for i, (n_en, running_enabled, c) in enumerate(points):
                cost = 1 if running_enabled else 0
                if cost > bound:
                    continue
                for alt in range(1, n_en):
                    out.append(("sub", hname, gran, bound, list(choices[:i]) + [alt]))
    return out


def sequential_scenarios():
    """Thread life-time sequences (no interleaving involved): what a thread inherits or is served by
    does not depend on other threads having finished, or on requests made by unrelated threads."""
    import labrea.runtime as rt

    fails = []

    class T(rt.Request):
        def __init__(self):
            self.options = {}

    def tag(t):
        return lambda request: t

    rt.handle_by_default(T, tag("default"))
    seen = {}
    threads = []

    def run(fn):
        th = threading.Thread(target=fn)
        threads.append(th)
        th.start()
        th.join(10)
        return th

    main_rt = rt.current_runtime().handle(T, tag("outer"))
    holder = {}

    def coordinator():
        rt.inherit(holder["main"])
        seen["coordinator"] = T().run()

    def unrelated():
        seen["unrelated"] = T().run()

    def worker(name):
        def f():
            rt.inherit(holder["coord"])
            seen[name] = T().run()

        return f

    def main_like():
        with main_rt:
            holder["main"] = threading.current_thread()
            holder["coord"] = run(coordinator)  # three generations: main -> coordinator (finished) -> workers
            run(worker("w1"))
            run(unrelated)  # a thread that inherits nothing makes its first request
            run(worker("w2"))
            run(worker("w3"))

    run(main_like)
    want = {"coordinator": "outer", "w1": "outer", "unrelated": "default", "w2": "outer", "w3": "outer"}
    if seen != want:
        fails.append(f"inherit from a finished parent: observed {seen}, expected {want}")

    # a long-lived worker (a pool thread) that calls inherit() once per task: every call gives it the
    # handlers its parent has at that moment, whatever the worker had before
    import queue

    tasks, done = queue.Queue(), queue.Queue()

    def pool_worker():
        got = [T().run()]  # the worker already has a runtime of its own before it ever inherits
        while True:
            parent = tasks.get()
            if parent is None:
                break
            rt.inherit(parent)
            done.put(T().run())
        seen["pool-first"] = got[0]

    pw = threading.Thread(target=pool_worker)
    threads.append(pw)
    pw.start()
    served = []

    def pool_parent():
        me = threading.current_thread()
        with rt.current_runtime().handle(T, tag("task1")):
            tasks.put(me)
            served.append(done.get(timeout=10))
        with rt.current_runtime().handle(T, tag("task2")):
            tasks.put(me)
            served.append(done.get(timeout=10))
        tasks.put(me)
        served.append(done.get(timeout=10))
        tasks.put(None)

    run(pool_parent)
    pw.join(10)
    if served != ["task1", "task2", "default"] or seen.get("pool-first") != "default":
        fails.append(f"a reused worker calling inherit() per task was served {served} (first request {seen.get('pool-first')!r}), expected ['task1', 'task2', 'default'] ('default')")
    with rt.lock:
        for th in threads:
            rt._RUNTIMES.pop(th, None)
        for k in [k for k in list(rt._RUNTIMES) if not isinstance(k, threading.Thread)]:
            rt._RUNTIMES.pop(k, None)
        rt._DEFAULT_HANDLERS.pop(T, None)
    return fails


def run_case(case):
    res = {"failures": [], "executions": 0, "points": 0, "preempting": 0, "outcomes": 0, "samples": [], "max_points": 0}
    if case[0] == "sequential":
        for rep in range(20):
            for f in sequential_scenarios():
                if not res["failures"]:
                    res["failures"].append({"sig": "C15|sequential|inherit-from-finished-parent", "what": f"thread life-time scenario: {f[:300]}", "detail": "deterministic: threads run one after the other with join()", "case": ("sequential",)})
            res["executions"] += 1
        return res
    _warm()
    if case[0] == "replay":
        _, hname, gran, prefix = case
        p1, c1, f1 = run_once(hname, gran, prefix)
        p2, c2, f2 = run_once(hname, gran, prefix)
        if (p1, c1, _scrub(f1)) != (p2, c2, _scrub(f2)):
            raise RuntimeError("replay is not deterministic")
        res["executions"] = 2
        for f in f1:
            res["failures"].append(_fail(hname, gran, c1, f))
        return res
    if case[0] == "root":
        _, hname, gran = case
        points, choices, fails = run_once(hname, gran, [])
        # determinism: the same schedule twice gives identical observations
        p2, c2, f2 = run_once(hname, gran, [])
        if (points, choices, _scrub(fails)) != (p2, c2, _scrub(f2)):
            raise RuntimeError(f"{hname}/{gran}: replaying the default schedule diverged")
        res["executions"] = 2
        res["points"] = len(points)
        res["max_points"] = len(points)
        for f in fails:
            res["failures"].append(_fail(hname, gran, choices, f))
        res["samples"].append({"harness": hname, "granularity": gran, "default_schedule_points": len(points)})
        return res
    _, hname, gran, bound, prefix = case
    stats = {}
    seen_fail = set()
    outcomes = set()
    first = True
    for choices, fails in explore(lambda pre: run_once(hname, gran, pre), bound, prefix=prefix, stats=stats):
        # the sub-tree's own budget: the prefix already spent its preemptions
        if any(c != 0 for c in choices):
            res["preempting"] += 1
        outcomes.add(repr(fails))
        for f in fails:
            key = f.split(":")[0][:40]
            if key not in seen_fail:
                seen_fail.add(key)
                # replay determinism before trusting the failure
                p2, c2, f2 = run_once(hname, gran, choices)
                if _scrub(f2) != _scrub(fails):
                    raise RuntimeError(f"{hname}/{gran}: failure not reproducible under the same schedule {choices}")
                res["failures"].append(_fail(hname, gran, choices, f))
        first = False
    res["executions"] = stats.get("executions", 0)
    res["points"] = stats.get("points", 0)
    res["max_points"] = stats.get("max_points", 0)
    res["outcomes"] = len(outcomes)
    return res


def _scrub(fails):
    """observation texts with object addresses removed (exception messages quote reprs)"""
    import re

    return [re.sub(r"0x[0-9a-fA-F]+", "0x", f) for f in fails]


def _fail(hname, gran, choices, f):
    # the signature does not include the schedule: one finding per harness and symptom
    return {
        "sig": f"C15|{hname}|{gran}|{f.split(':')[0][:60]}",
        "what": f"{hname} ({gran} granularity): {f[:200]}",
        "detail": f"schedule (choice index at each scheduling point) = {choices}",
        "case": ("replay", hname, gran, list(choices)),
    }


def summarize(results, tier):
    tot = lambda k: sum(r.get(k, 0) for r in results)  # noqa
    samples = []
    for r in results:
        samples.extend(r.get("samples", []))
    ex = tot("executions")
    return {
        "states": tot("points"),
        "transitions": tot("points"),
        "schedules": ex,
        "traces_validated_against_impl": ex,
        "evaluations": ex,
        "distinct_nontrivial": tot("preempting"),
        "max_scheduling_points_in_one_execution": max([r.get("max_points", 0) for r in results] or [0]),
        "preemption_bounds": {g: b for g, b in _plan(tier)},
        "harnesses": list(HARNESSES),
        "samples": samples[:8],
        "exhaustive": True,
        "explanation": "states/transitions count scheduling points visited over all executions; every execution runs the real code in real threads",
    }
