"""C14 - handler scoping: the entered runtime serves; leaving a block restores the prior.

Two explorations of the REAL labrea.runtime, each history executed in a fresh
thread (so 'a thread with / without an existing runtime' is a real thing):

 * BFS over operation histories driven by direct __enter__/__exit__ calls, with
   canonical-state deduplication, against a stack model;
 * all well-nested programs up to a node bound executed with real ``with``
   blocks and real exceptions (the context-manager protocol itself).
"""
import itertools
import threading

ID = "C14"
LEVEL = "model_checking"
TECHNIQUE = "explicit-state BFS over enter/exit/derive/register-default/run histories on the real Runtime against a stack model, plus exhaustive with-block programs"
RULE = (
    "operations: enter(r) for r in {fresh Runtime(), runtime derived elsewhere with T1->hA, cache.disabled(), logging.disabled(), derived-from-current via "
    "runtime.handle(T1,hB) / handle({T2:hB}), the currently active runtime (re-entry), an already used runtime}, exit, "
    "exit-by-exception, derive (checks parent table unchanged), register-default(T2) (once), run(T1), run(T2), "
    "re-registration of the T2 default, current-runtime probe; start states: thread without runtime, with "
    "current_runtime() touched, with inherit(parent), thread started after a worker that inherited a handler has died; "
    "BFS to depth 6 quick / 8 thorough with dedup on (model stack, real state); with-programs: all trees up to 3 / 5 "
    "nodes. Non-trivial = history with nesting depth >= 2 or a re-entry or a late default."
)
ASSUMPTIONS = [
    "when a default is re-registered, a runtime created while the older default was current may serve either (it may hold a copy); a runtime created before the first registration must serve the newest",
    "request types T1 (default registered before any runtime exists) and T2 (default registered late or never)",
]

_lock_reset = threading.Lock()


def _fresh_types():
    import labrea.runtime as rt

    class T1(rt.Request):
        def __init__(self):
            self.options = {}

    class T2(rt.Request):
        def __init__(self):
            self.options = {}

    return T1, T2


def tagger(tag):
    def handler(request):
        return tag

    handler.__name__ = "h_" + tag
    return handler


class Sys:
    """One execution context: fresh request types, fresh pool, run inside one thread."""

    def __init__(self, start):
        import labrea.runtime as rt

        self.rt = rt
        self.T1, self.T2 = _fresh_types()
        rt.handle_by_default(self.T1, tagger("d1"))
        self.start = start
        self.hA, self.hB, self.hP = tagger("hA"), tagger("hB"), tagger("hP")
        # pool objects created outside the thread ("derived in another context")
        self.R_other = rt.Runtime().handle(self.T1, self.hA)
        self.R_plain = rt.Runtime()
        self.R_parent = rt.Runtime().handle(self.T1, self.hP)
        # model: each runtime = dict of explicit overrides {typename: tag}
        self.model_tables = {id(self.R_other): {"T1": "hA"}, id(self.R_plain): {}, id(self.R_parent): {"T1": "hP"}}
        self.defaults = {"T1": "d1"}
        self.ever = {"T1": {"d1"}, "T2": set()}  # every default ever registered per type
        # defaults a runtime may hold as a copy taken when it (or a runtime it derives from) was created
        self.snaps = {id(self.R_other): set(), id(self.R_plain): set(), id(self.R_parent): set()}
        self.base_snap = set()
        self.base_exists = False  # does the thread have a runtime of its own below the entered blocks?
        self.stack = []  # entered runtime objects (model)
        self.base = None  # model table of the runtime below the stack
        self.fails = []
        self.obs = []
        self.derived = []

    # ---- model -----------------------------------------------------------
    def model_current_table(self):
        if self.stack:
            return self.model_tables[id(self.stack[-1])]
        return self.base if self.base is not None else {}

    def model_serve(self, tname):
        """Set of acceptable answers.  A runtime serves with the handler it holds, else with the default
        registered for the type.  When a default was re-registered, a runtime created while the older
        default was current may hold a copy of it: both readings are accepted for such a runtime only."""
        t = self.model_current_table()
        if tname in t:
            return {t[tname]}
        out = set()
        if tname in self.defaults:
            out.add(self.defaults[tname])
        if tname == "T2":
            if self.stack:
                out |= self.snaps.get(id(self.stack[-1]), set())
            elif self.base_exists:
                out |= self.base_snap
        return out or {"TypeError"}

    def _touch(self):
        """current_runtime() is about to be called: a thread that has no runtime gets a fresh default
        one now (and only now - leaving a block entered without a runtime leaves the thread without one)."""
        if not self.stack and not self.base_exists:
            self.base_exists = True
            self.base_snap = self._snap_now()

    def _cur_snaps(self):
        if self.stack:
            return set(self.snaps.get(id(self.stack[-1]), set()))
        return set(self.base_snap) if self.base_exists else set()

    def _snap_now(self):
        return {self.defaults["T2"]} if "T2" in self.defaults else set()

    # ---- operations on the real thing -----------------------------------
    def begin(self):
        rt = self.rt
        if self.start == "touched":
            rt.current_runtime()
            self.base = {}
            self.base_exists = True
        elif self.start == "inherit":
            rt.inherit(self.parent_thread)
            self.base = {"T1": "hP"}
            self.base_exists = True
        else:
            # 'none' and 'after-dead-inheritor': this thread never touched the runtime machinery
            self.base = {}

    def op(self, o):
        rt = self.rt
        kind = o[0]
        if kind == "enter":
            if o[1] in ("cachedis", "logdis"):
                # the library's own context managers: derived from the runtime current when they are created
                import labrea.cache
                import labrea.logging

                self._touch()
                tbl = dict(self.model_current_table())
                snaps = self._cur_snaps() | self._snap_now()
                r = labrea.cache.disabled() if o[1] == "cachedis" else labrea.logging.disabled()
                self.model_tables[id(r)] = tbl
                self.snaps[id(r)] = snaps
                self._keep = getattr(self, "_keep", []) + [r]
            else:
                r = self.resolve(o[1])
            if r is None:
                return False
            r.__enter__()
            self.stack.append(r)
        elif kind in ("exit", "exitx"):
            if not self.stack:
                return False
            r = self.stack.pop()
            if kind == "exit":
                r.__exit__(None, None, None)
            else:
                e = RuntimeError("boom")
                r.__exit__(RuntimeError, e, None)
        elif kind == "derive":
            # derive from a pool runtime; the parent's handler table must not change
            src = self.resolve(o[1])
            if src is None or len(self.derived) >= 2:
                return False
            before = dict(src.handlers)
            T = self.T1 if o[2] == "T1" else self.T2
            new = src.handle(T, self.hB)
            if dict(src.handlers) != before:
                self.fails.append(("derive-mutated-parent", f"{o}: {before} -> {dict(src.handlers)}"))
            tbl = dict(self.model_tables[id(src)])
            tbl[o[2]] = "hB"
            self.model_tables[id(new)] = tbl
            self.snaps[id(new)] = set(self.snaps.get(id(src), set())) | self._snap_now()
            self.derived.append(new)
        elif kind == "derive_cur":
            if len(self.derived) >= 2:
                return False
            # module-level handle(): derive from the thread's current runtime
            self._touch()
            cur_tbl = dict(self.model_current_table())
            if o[1] == "map":
                new = rt.handle({self.T2: self.hB})
                cur_tbl["T2"] = "hB"
            else:
                new = rt.handle(self.T1, self.hB)
                cur_tbl["T1"] = "hB"
            self.model_tables[id(new)] = cur_tbl
            self.snaps[id(new)] = self._cur_snaps() | self._snap_now()
            self.derived.append(new)
        elif kind == "regdef":
            if "T2" in self.defaults:
                return False
            rt.handle_by_default(self.T2, tagger("d2"))
            self.defaults["T2"] = "d2"
            self.ever["T2"].add("d2")
        elif kind == "regdef2":
            # re-registration: the newest default is "the default registered for that type"
            if self.defaults.get("T2") != "d2":
                return False
            rt.handle_by_default(self.T2, tagger("d2b"))
            self.defaults["T2"] = "d2b"
            self.ever["T2"].add("d2b")
        elif kind == "run":
            T = self.T1 if o[1] == "T1" else self.T2
            self._touch()
            want = self.model_serve(o[1])
            try:
                got = T().run()
            except TypeError:
                got = "TypeError"
            except Exception as e:  # noqa
                got = f"{type(e).__name__}: {e}"
            self.obs.append((o, got))
            if got not in want:
                self.fails.append(("wrong-handler", f"{o}: served by {got!r}, model says {sorted(want)!r}"))
        elif kind == "probe":
            # the current runtime must be the top of the stack (identity) when something is entered
            self._touch()
            try:
                cur = rt.current_runtime()
            except Exception as e:  # noqa
                cur = e
            if self.stack and cur is not self.stack[-1]:
                self.fails.append(("wrong-current", f"current_runtime() is {cur!r}, expected the most recently entered runtime"))
            if not self.stack and not hasattr(cur, "run"):
                self.fails.append(("wrong-current", f"current_runtime() is {cur!r} after all blocks were left"))
        return True

    def resolve(self, name):
        if name == "fresh":
            r = self.rt.Runtime()
            self.model_tables[id(r)] = {}
            self.snaps[id(r)] = self._snap_now()
            self._keep = getattr(self, "_keep", []) + [r]
            return r
        if name == "other":
            return self.R_other
        if name == "plain":
            return self.R_plain
        if name == "cur":
            return self.stack[-1] if self.stack else None
        if name == "below":
            return self.stack[-2] if len(self.stack) > 1 else None
        if name == "d0":
            return self.derived[0] if len(self.derived) > 0 else None
        if name == "d1":
            return self.derived[1] if len(self.derived) > 1 else None
        raise ValueError(name)

    def real_state(self):
        """Canonical form of the real state, names instead of object ids."""
        rt = self.rt
        names = {id(self.R_other): "other", id(self.R_plain): "plain", id(self.R_parent): "parent"}
        for i, d in enumerate(self.derived):
            names[id(d)] = f"d{i}"

        def nm(r):
            if r is None:
                return None
            return names.get(id(r), "anon:" + ",".join(sorted(getattr(h, "__name__", "?") for h in r.handlers.values())))

        cur = rt._RUNTIMES.get(threading.current_thread(), "<no entry>")
        cur_n = cur if cur == "<no entry>" else nm(cur)
        def pv(r):
            p = getattr(r, "previous", None)
            if p is None or hasattr(p, "handlers"):
                return nm(p)
            try:
                return f"{type(p).__name__}:{len(p)}"
            except TypeError:
                return type(p).__name__

        prev = tuple((n, pv(r)) for n, r in (("other", self.R_other), ("plain", self.R_plain))) + tuple(
            (nm(r), pv(r)) for r in self.stack
        )
        stack = tuple(nm(r) for r in self.stack)
        return (cur_n, prev, stack, tuple(sorted(self.defaults.items())), self.base_exists, tuple(sorted(self.base_snap)), len(self.derived),
                tuple(tuple(sorted(self.model_tables[id(d)].items())) for d in self.derived))


def _dead_inheritor(s):
    """A worker inherits the parent's runtime (T1 -> hP) and terminates, then the parent leaves its block.
    The thread started next never touched the runtime machinery and must be served by the defaults; the
    operating system recycles the identifiers of finished threads, thread OBJECTS are never recycled."""
    rt = s.rt
    ready, done = threading.Event(), threading.Event()

    def parent():
        with s.R_parent:
            ready.set()
            done.wait(5)

    pt = threading.Thread(target=parent)
    pt.start()
    ready.wait(5)

    def worker():
        rt.inherit(pt)
        s.T1().run()

    w = threading.Thread(target=worker)
    w.start()
    w.join(5)
    done.set()
    pt.join(5)
    s._dead = [pt, w]


def execute(start, hist):
    """Run one history in a fresh thread on fresh request types. Returns (fails, obs, state, applicable)."""
    import labrea.runtime as rt

    out = {}
    parent_ready = threading.Event()
    parent_done = threading.Event()
    s = Sys(start)

    def parent():
        with s.R_parent:
            parent_ready.set()
            parent_done.wait(5)

    def worker():
        try:
            s.begin()
            ok = True
            for o in hist:
                if not s.op(o):
                    ok = False
                    break
                if o[0] in ("exit", "exitx"):
                    # leaving a block restores exactly the runtime that was current before it: looked at
                    # right away (not an operation of the history, so nesting depth 4 fits into 5 operations)
                    s.op(("probe",))
                    s.op(("run", "T1"))
            out["applicable"] = ok
            out["state"] = s.real_state() if ok else None
            if ok and not s.stack:
                # final state equals the initial one: both request types are served as at the start
                for tn in ("T1", "T2"):
                    s.op(("run", tn))
        except BaseException as e:  # noqa
            import traceback

            s.fails.append(("exception", f"{type(e).__name__}: {e} :: {traceback.format_exc()[-300:]}"))
            out["applicable"] = True
            out["state"] = None

    pt = None
    if start == "inherit":
        pt = threading.Thread(target=parent)
        pt.start()
        parent_ready.wait(5)
        s.parent_thread = pt
    if start == "after-dead-inheritor":
        _dead_inheritor(s)
    t = threading.Thread(target=worker)
    t.start()
    t.join(20)
    if pt is not None:
        parent_done.set()
        pt.join(5)
    # clean the global tables of this history's threads and request types
    with rt.lock:
        for k in [k for k in list(rt._RUNTIMES) if not isinstance(k, threading.Thread)]:
            rt._RUNTIMES.pop(k, None)  # a registry keyed by anything else than the thread object
        for th in [t, pt] + getattr(s, "_dead", []):
            if th is not None:
                rt._RUNTIMES.pop(th, None)
        rt._DEFAULT_HANDLERS.pop(s.T1, None)
        rt._DEFAULT_HANDLERS.pop(s.T2, None)
    return s.fails, s.obs, out.get("state"), out.get("applicable", False)


MENU = (
    [("enter", r) for r in ("fresh", "other", "plain", "cur", "below", "d0", "d1", "cachedis", "logdis")]
    + [("exit",), ("exitx",)]
    + [("derive", "other", "T2"), ("derive", "cur", "T1"), ("derive_cur", "pair"), ("derive_cur", "map")]
    + [("regdef",), ("regdef2",), ("run", "T1"), ("run", "T2"), ("probe",)]
)
STARTS = ["none", "touched", "inherit", "after-dead-inheritor"]


def cases(tier, seed):
    out = []
    depth = 5 if tier == "quick" else 6
    # shard the BFS by start state and first operation: each shard is a complete sub-tree
    for start in STARTS:
        for first in range(len(MENU)):
            out.append(("bfs", start, first, depth))
    nodes = 3 if tier == "quick" else 5
    for start in STARTS:
        for first in range(len(WITH_ATOMS) + len(WITH_POOL)):
            out.append(("with", start, first, nodes))
    return out


# -------------------------------------------------------------------------
# real with-blocks

WITH_POOL = ["fresh", "other", "cur", "dcur", "cachedis"]
WITH_ATOMS = [("run", "T1"), ("run", "T2"), ("regdef",), ("regdef2",), ("probe",)]


def programs(n):
    """All block bodies with exactly n nodes.  Node = atom | ('with', r, raises, body)."""
    if n == 0:
        yield []
        return
    # first statement takes k nodes, rest takes n-k
    for k in range(1, n + 1):
        for first in stmts(k):
            for rest in programs(n - k):
                yield [first] + rest


def stmts(k):
    if k == 1:
        for a in WITH_ATOMS:
            yield a
    for r in WITH_POOL:
        for raises in (False, True):
            for body in programs(k - 1):
                yield ("with", r, raises, body)


class Boom(Exception):
    pass


def run_program(start, prog):
    import labrea.runtime as rt

    s = Sys(start)
    out = {}
    parent_ready = threading.Event()
    parent_done = threading.Event()

    def block(items):
        for it in items:
            if it[0] == "with":
                _, rname, raises, body = it
                if rname == "dcur":
                    s._touch()
                    tbl = dict(s.model_current_table())
                    tbl["T1"] = "hB"
                    r = rt.handle(s.T1, s.hB)
                    s.model_tables[id(r)] = tbl
                    s.snaps[id(r)] = s._cur_snaps() | s._snap_now()
                elif rname in ("cachedis", "logdis"):
                    import labrea.cache
                    import labrea.logging

                    s._touch()
                    tbl = dict(s.model_current_table())
                    sn = s._cur_snaps() | s._snap_now()
                    r = labrea.cache.disabled() if rname == "cachedis" else labrea.logging.disabled()
                    s.model_tables[id(r)] = tbl
                    s.snaps[id(r)] = sn
                elif rname == "cur":
                    r = s.stack[-1] if s.stack else s.R_plain
                else:
                    r = s.resolve(rname)
                depth = len(s.stack)
                try:
                    with r:
                        s.stack.append(r)
                        try:
                            block(body)
                            if raises:
                                raise Boom()
                        finally:
                            del s.stack[depth:]
                except Boom:
                    pass
                # after the block the serving handlers are those of before the block
                s.op(("run", "T1"))
                s.op(("probe",))
            else:
                s.op(it)

    def parent():
        with s.R_parent:
            parent_ready.set()
            parent_done.wait(5)

    def worker():
        try:
            s.begin()
            block(prog)
            for tn in ("T1", "T2"):
                s.op(("run", tn))
        except BaseException as e:  # noqa
            import traceback

            s.fails.append(("exception", f"{type(e).__name__}: {e} :: {traceback.format_exc()[-300:]}"))

    pt = None
    if start == "inherit":
        pt = threading.Thread(target=parent)
        pt.start()
        parent_ready.wait(5)
        s.parent_thread = pt
    if start == "after-dead-inheritor":
        _dead_inheritor(s)
    t = threading.Thread(target=worker)
    t.start()
    t.join(20)
    if pt is not None:
        parent_done.set()
        pt.join(5)
    with rt.lock:
        for k in [k for k in list(rt._RUNTIMES) if not isinstance(k, threading.Thread)]:
            rt._RUNTIMES.pop(k, None)
        for th in [t, pt] + getattr(s, "_dead", []):
            if th is not None:
                rt._RUNTIMES.pop(th, None)
        rt._DEFAULT_HANDLERS.pop(s.T1, None)
        rt._DEFAULT_HANDLERS.pop(s.T2, None)
    return s.fails, s.obs


def _nontrivial_hist(hist):
    d = 0
    mx = 0
    for o in hist:
        if o[0] == "enter":
            d += 1
            mx = max(mx, d)
            if o[1] in ("cur", "below"):
                return True
        elif o[0] in ("exit", "exitx"):
            d -= 1
    return mx >= 2 or ("regdef",) in hist


def run_case(case):
    res = {"failures": [], "states": 0, "transitions": 0, "nontrivial": 0, "programs": 0, "samples": [], "outcomes": 0}
    if case[0] == "hist":
        _, start, hist = case
        fails, obs, st, ok = execute(start, [tuple(o) for o in hist])
        res["transitions"] = len(hist)
        res["states"] = 1
        for kind, d in fails:
            res["failures"].append(_fail_hist(start, hist, kind, d))
        return res
    if case[0] == "prog":
        _, start, prog = case
        fails, obs = run_program(start, prog)
        res["programs"] = 1
        res["states"] = 1
        res["transitions"] = 1
        for kind, d in fails:
            res["failures"].append(_fail_prog(start, prog, kind, d))
        return res
    if case[0] == "bfs":
        _, start, first, depth = case
        seen = set()
        frontier = [[MENU[first]]]
        outcomes = set()
        reported = set()
        d = 1
        while frontier and d <= depth:
            nxt = []
            for hist in frontier:
                fails, obs, st, ok = execute(start, hist)
                if not ok:
                    continue
                res["transitions"] += 1
                outcomes.add(repr(obs))
                if _nontrivial_hist(hist):
                    res["nontrivial"] += 1
                for kind, dd in fails:
                    if kind not in reported:
                        reported.add(kind)
                        res["failures"].append(_fail_hist(start, hist, kind, dd))
                if fails:
                    continue  # do not extend a history that already violates
                if st in seen:
                    continue
                seen.add(st)
                for o in MENU:
                    nxt.append(hist + [o])
            frontier = nxt
            d += 1
        res["states"] = max(1, len(seen))
        res["outcomes"] = len(outcomes)
        if first == 0:
            res["samples"].append({"start": start, "history": [list(o) for o in [MENU[0], MENU[3], MENU[14], MENU[7], MENU[7]]]})
        return res
    if case[0] == "with":
        _, start, first, nodes = case
        firsts = list(WITH_ATOMS) + [("withpool", r) for r in WITH_POOL]
        f = firsts[first]
        reported = set()
        for n in range(1, nodes + 1):
            for prog in programs(n):
                head = prog[0]
                if f[0] == "withpool":
                    if not (head[0] == "with" and head[1] == f[1]):
                        continue
                elif head != f:
                    continue
                fails, obs = run_program(start, prog)
                res["programs"] += 1
                res["transitions"] += 1
                if any(it[0] == "with" and any(b[0] == "with" for b in it[3]) for it in prog):
                    res["nontrivial"] += 1
                for kind, dd in fails:
                    if kind not in reported:
                        reported.add(kind)
                        res["failures"].append(_fail_prog(start, prog, kind, dd))
        res["states"] = max(1, res["programs"])
        return res
    raise ValueError(case)


def _fail_hist(start, hist, kind, d):
    h = [tuple(o) for o in hist]
    return {
        "sig": f"C14|{kind}|{start}|{h!r}",
        "what": f"{kind} after history {h!r} in a thread starting '{start}'",
        "detail": d,
        "case": ("hist", start, h),
    }


def _fail_prog(start, prog, kind, d):
    return {
        "sig": f"C14|with|{kind}|{start}|{prog!r}",
        "what": f"{kind} in with-program {prog!r} in a thread starting '{start}'",
        "detail": d,
        "case": ("prog", start, prog),
    }


def summarize(results, tier):
    tot = lambda k: sum(r.get(k, 0) for r in results)  # noqa
    samples = []
    for r in results:
        samples.extend(r.get("samples", []))
    samples.append({"with_program": [["with", "fresh", False, [["with", "cur", True, [["run", "T1"]]], ["regdef"], ["run", "T2"]]]]})
    return {
        "states": tot("states"),
        "transitions": tot("transitions"),
        "traces_validated_against_impl": tot("transitions"),
        "evaluations": tot("transitions"),
        "distinct_nontrivial": tot("nontrivial"),
        "with_programs": tot("programs"),
        "distinct_observation_sequences": tot("outcomes"),
        "menu": [list(o) for o in MENU],
        "samples": samples[:5],
        "exhaustive": True,
    }
