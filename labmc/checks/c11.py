"""C11 - explain() covers keys() and names every missing option.

Exhaustive over catalogue terms x every dictionary of the alphabet (the
alphabets are products that include 'absent' for every key, so they contain
every sub-dictionary of every sufficient dictionary, the empty one included)
plus options=None.
"""
import copy
import itertools

from .. import catalogue as cat
from ..build import make, observe
from ..common import short
from ..optspace import Absent, exists, lookup, set_path
from ..ref import Ref

ID = "C11"
LEVEL = "exploration"
TECHNIQUE = "exhaustive enumeration of terms x all sub-dictionaries; explain/keys/validate cross-checked on the real objects, fill-loop driven to a fixpoint"
RULE = (
    "terms = contexts^d x leaves (d<=2 quick, d<=3 core thorough); for every dictionary o (all sub-dictionaries, {} "
    "and None): if explain(o) succeeds then it contains keys(o); M = listed keys absent from o; M empty => "
    "validate(o) does not fail for a missing option; M non-empty => validate(o) fails; a missing-key failure of "
    "validate(o) names a listed key; explain() raises only InsufficientInformationError and only where the "
    "reference cannot choose a branch; no dataset body runs beyond branch selection; fill loop: repeatedly adding "
    "the listed absent keys from each sufficient dictionary reaches a dictionary on which validate passes within "
    "(number of keys + 1) rounds (from every sub-dictionary at d<=1, from the empty dictionary at d=2 quick).  Non-trivial = (term, o) with M non-empty or explain failing."
)
ASSUMPTIONS = [
    "dictionaries holding a value outside a declared domain are excluded from the 'M empty => validate passes' direction (validate may fail for the domain, not for a missing option)",
]
CORE = ["apply", "bind_src", "switch_disp", "switch_disp_nd", "switch_branch", "case_cond", "coalesce_first", "coalesce_dom", "map_ev", "ds_dispatch", "ds_overload", "wo_A", "wdo_B", "opt_default"]


TIER = ["quick"]


def extra_terms():
    """Graphs the catalogue does not contain: effects whose own parameters are options, combined with
    the LABREA.EFFECTS.DISABLED switch (an effect that is switched off needs none of its options)."""
    from ..optspace import ABSENT

    de = ("ds", "de", {"params": [("opt", "A", ("val", 0))], "effects": [("effopt", "eo", "E")]})
    spec = [("A", [ABSENT, 1]), ("E", [ABSENT, 1]), ("LABREA.EFFECTS.DISABLED", [ABSENT, True, False])]
    out = [("extra:effect-with-option", de, spec)]
    out.append(("extra:effect-with-option-nested", ("ds", "user", {"params": [de, ("opt", "B")]}), spec + [("B", [ABSENT, 2])]))
    out.append(("extra:effect-with-option-in-switch", ("switch", ("optkey", "D"), [("x", de)], ("val", "dflt")), spec + [("D", [ABSENT, "x"])]))
    out.append(("extra:effect-with-option-coalesce", ("coalesce", [de, ("val", "fallback")]), spec))
    return out


def _leaves(depth, tier):
    return cat.QUICK2_LEAVES if (tier == "quick" and depth >= 2) else None


def _tier_of(case):
    return "thorough" if "thorough" in case else "quick"


def cases(tier, seed):
    out = [("extra",)]
    plan = [(0, None), (1, None), (2, None)]
    if tier == "thorough":
        plan.append((3, CORE))
    for depth, ctxs in plan:
        n = sum(1 for _ in cat.catalogue(depth, _leaves(depth, tier), ctxs))
        for a in range(0, n, 30):
            out.append(("batch", depth, ctxs, a, min(n, a + 30), tier))
    return out


def missing_key_of(obs):
    """The key named by a missing-key failure (innermost KeyNotFoundError), or None."""
    if obs.ok or obs.kind != "missing":
        return None
    return obs.key


def check_term(label, term, dicts, res, all_starts=True):
    from labrea.exceptions import InsufficientInformationError

    fails = []
    reported = set()

    def fail(kind, o, d):
        if kind in reported:
            return
        reported.add(kind)
        fails.append({"sig": f"C11|{kind}|{label}|{o!r}", "what": f"{kind}: {label} under {o!r}", "detail": d + " term=" + short(term, 400),
                      "case": ("one", label, term, dicts)})

    from .c06 import syntactic_structural

    w, obj = make(term, "nocache")
    r = Ref()
    sufficient = []
    syn = syntactic_structural(term)
    for o in dicts + [None]:
        oo = {} if o is None else o
        out = r.run(term, oo)
        structural = set(r.structural)
        struct_failed = r.struct_failed
        if out.ok and o is not None:
            sufficient.append(o)
        w.reset_log()
        ex = observe(w, lambda: obj.explain(None if o is None else copy.deepcopy(o)))
        elog = [e for e in w.log if e[0] == "body"]
        res["evaluations"] += 1
        extra = [e for e in elog if e not in structural and e not in syn]
        if extra:
            fail("explain-ran-a-body", o, f"{extra} ran; needed to choose a branch: {sorted(structural | syn)}")
        if not ex.ok:
            res["nontrivial"] += 1
            if not isinstance(ex.exc, InsufficientInformationError):
                fail("explain-failed-with-wrong-error", o, f"{type(ex.exc).__name__}: {ex.exc}")
            elif not struct_failed:
                fail("explain-failed-although-a-branch-can-be-chosen", o, f"{ex!r}; reference outcome {out!r}")
            continue
        listed = set(ex.value)
        ks = observe(w, lambda: obj.keys(copy.deepcopy(oo)))
        if ks.ok and not set(ks.value) <= listed:
            fail("explain-omits-a-reported-key", o, f"keys()={sorted(ks.value)} explain()={sorted(listed)}")
        M = {k for k in listed if not exists(oo, k)}
        v = observe(w, lambda: obj.validate(copy.deepcopy(oo)))
        in_domain = not (not out.ok and out.kind == "domain")
        if M:
            res["nontrivial"] += 1
            if v.ok:
                fail("listed-key-absent-but-validate-passes", o, f"explain()={sorted(listed)} absent={sorted(M)} validate passed")
        else:
            if not v.ok and v.kind == "missing":
                fail("nothing-listed-is-absent-but-validate-misses-an-option", o, f"explain()={sorted(listed)} validate={v!r}")
        mk = missing_key_of(v)
        if mk is not None and mk not in listed:
            fail("validate-names-an-unlisted-key", o, f"validate names {mk!r}; explain()={sorted(listed)}")
    # fill loop
    nkeys = 8
    for full in sufficient:
        for start in (dicts if all_starts else dicts[:1]):
            if not _subdict(start, full):
                continue
            cur = copy.deepcopy(start)
            ok = False
            for rnd in range(nkeys + 1):
                ex = observe(w, lambda: obj.explain(copy.deepcopy(cur)))
                if not ex.ok:
                    ok = True  # the premise "explain succeeds at each round" does not hold
                    break
                M = [k for k in sorted(ex.value) if not exists(cur, k)]
                if not M:
                    v = observe(w, lambda: obj.validate(copy.deepcopy(cur)))
                    ok = v.ok or v.kind != "missing"
                    break
                progressed = False
                for k in M:
                    if not exists(full, k):
                        continue
                    _supply(cur, k, full)
                    progressed = True
                if not progressed:
                    ok = True  # the sufficient dictionary cannot supply what is listed: premise fails
                    break
            res["fill_loops"] = res.get("fill_loops", 0) + 1
            if not ok:
                fail("fill-loop-does-not-converge", start, f"towards {full!r}: stuck at {cur!r}")
    return fails


def _subdict(a, b):
    if isinstance(a, dict) and isinstance(b, dict):
        return all(k in b and _subdict(v, b[k]) for k, v in a.items())
    return a == b and type(a) is type(b)


def _supply(cur, dotted, full):
    """Add the value of ``dotted`` from the sufficient dictionary; a path through a list brings the whole list."""
    segs = dotted.split(".")
    node = full
    for i, s_ in enumerate(segs):
        if isinstance(node, dict) and s_ in node:
            node = node[s_]
            if isinstance(node, list) and i < len(segs) - 1:
                set_path(cur, ".".join(segs[: i + 1]), copy.deepcopy(node))
                return
        else:
            return
    set_path(cur, dotted, copy.deepcopy(node))


def run_case(case):
    res = {"failures": [], "evaluations": 0, "nontrivial": 0, "terms": 0, "samples": [], "fill_loops": 0}
    if case[0] == "one":
        _, label, term, dicts = case
        res["failures"] = check_term(label, term, dicts, res)
        return res
    if case[0] == "extra":
        for label, term, spec in extra_terms():
            res["terms"] += 1
            res["failures"].extend(check_term(label, term, cat.dictionaries(spec), res))
        return res
    _, depth, ctxs, a, b = case[:5]
    TIER[0] = case[5] if len(case) > 5 else "quick"
    for label, term, spec in itertools.islice(cat.catalogue(depth, _leaves(depth, _tier_of(case)), ctxs), a, b):
        dicts = cat.dictionaries(spec)
        res["terms"] += 1
        res["failures"].extend(check_term(label, term, dicts, res, all_starts=(depth <= 1 or TIER[0] == "thorough")))
        if a == 0 and depth == 1 and len(res["samples"]) < 2:
            res["samples"].append({"label": label, "term": short(term, 300), "sub_dictionaries": len(dicts) + 1, "example": dicts[len(dicts) // 2]})
    return res


def summarize(results, tier):
    tot = lambda k: sum(r.get(k, 0) for r in results)  # noqa
    samples = []
    for r in results:
        samples.extend(r.get("samples", []))
    return {
        "evaluations": tot("evaluations"),
        "distinct_nontrivial": tot("nontrivial"),
        "terms": tot("terms"),
        "fill_loops": tot("fill_loops"),
        "samples": samples[:5],
        "exhaustive": True,
    }
