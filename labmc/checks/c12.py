"""C12 - failures surface as EvaluationError with source and cause; never stored.

Fault enumeration + explicit-state search on the real objects:
  pass A  every user callable of every term raises, in turn, each of 7 exception
          types (always): one evaluation per dictionary from a cold cache;
  pass B  histories (all ordered pairs of dictionaries, cache restored exactly)
          with no fault and with each callable raising on one argument value, so
          that failing and succeeding evaluations mix on one long-lived graph.
Oracle: a failure is an EvaluationError whose source IS the object evaluate()
was called on and whose cause chain reaches the injected exception OBJECT, or a
KeyNotFoundError naming the option the reference says is missing; every
evaluation equals the memo-free twin under the same fault script; a failed
top-level evaluation adds no entry to the top node's cache.
"""
import copy
import itertools

from .. import catalogue as cat
from ..build import World, cause_chain, make, observe
from ..common import same_obs, short
from ..kripke import CacheSystem
from ..optspace import exists
from ..ref import Ref

ID = "C12"
LEVEL = "model_checking"
TECHNIQUE = "fault enumeration over user callables x exception types, and explicit-state search over failing/succeeding evaluation histories with exact cache-state restore; differential oracle against the memo-free twin"
RULE = (
    "terms = contexts^d x leaves with an eager value (d<=1 quick, d<=2 over 21 core contexts thorough) plus 8 hand-listed multi-dataset "
    "graphs; pass A: callables x {ValueError, KeyError, TypeError, StopIteration, CacheGetFailure, EvaluationError, "
    "KeyNotFoundError} x all dictionaries; pass B: fault scripts {none} + {callable raises ValueError when its first "
    "argument is 1 / is 2; effects raise always} x all ordered pairs with a failed first evaluation (states = cache contents after it). "
    "Non-trivial = transitions whose evaluation fails."
)
ASSUMPTIONS = [
    "a bare lazy Iter/Map result at top level is excluded: its elements fail when iterated, outside evaluate()",
    "when several options are missing the implementation may name any one that is absent",
]
CORE2 = ["apply", "bind_src", "bind_res", "switch_disp", "switch_branch", "case_disp", "case_cond", "coalesce_first", "coalesce_second",
         "list", "map_ev", "fa_kw", "ds_param", "ds_dispatch", "ds_overload", "ds_callback", "ds_effect", "wo_A", "cached", "tmpl_param", "opt_default"]
EXCS = ["ValueError", "KeyError", "TypeError", "StopIteration", "CacheGetFailure", "EvaluationError", "KeyNotFoundError"]


def _multi():
    from ..optspace import ABSENT

    A3 = ("A", [ABSENT, 1, 2])
    B3 = ("B", [ABSENT, 1, 2])
    inner = ("ds", "inner", {"params": [("opt", "A")]})
    mid = ("ds", "mid", {"params": [inner, ("opt", "B", ("val", 0))], "callback": ("fn", "cb"), "effects": ["e"]})
    top = ("ds", "top", {"params": [mid, inner]})
    out = [("multi:chain", top, [A3, B3])]
    ov = ("ds", "ov", {"params": [("opt", "A")], "dispatch": ("optkey", "D"), "overloads": [("x", ("ds", "implx", {"params": [("opt", "B")]}))], "callback": ("step", "cbs", {"y": ("opt", "B", ("val", 0))})})
    out.append(("multi:overload", ("ds", "user", {"params": [ov]}), [A3, B3, ("D", [ABSENT, "x", "zz"])]))
    ab = ("ds", "ab", {"abstract": True, "dispatch": ("optkey", "D"), "overloads": [("x", inner)]})
    out.append(("multi:abstract", ("ds", "user", {"params": [ab]}), [A3, ("D", [ABSENT, "x", "zz"])]))
    sw = ("switch", inner, [(("inner", 1), ("ds", "b1", {"params": [("opt", "B")]}))], None)
    out.append(("multi:switch-on-dataset", ("cached", sw, "c"), [A3, B3]))
    # branch keys of different types (1 / 'a' / None), failures below the switch, a consumer above it
    smx = ("switch", ("optkey", "D"), [(1, inner), ("a", ("ds", "b1", {"params": [("opt", "B")]})), (None, ("opt", "B"))], None)
    out.append(("multi:mixed-key switch below a consumer", ("ds", "user", {"params": [smx]}), [A3, B3, ("D", [ABSENT, 1, "a", None, "zz"])]))
    out.append(("multi:mixed-key switch in a coalesce", ("coalesce", [("apply", smx, ("fn", "f")), ("val", "fallback")]), [A3, B3, ("D", [ABSENT, 1, "a", "zz"])]))
    mo = ("ds", "mo", {"params": [("opt", "A")], "dispatch": ("optkey", "D"), "overloads": [(2, ("opt", "B")), ("fast", ("ds", "b1", {"params": [("opt", "B")]}))]})
    out.append(("multi:mixed-alias overloads below a consumer", ("ds", "user", {"params": [mo]}), [A3, B3, ("D", [ABSENT, 2, "fast", "zz"])]))
    cs = ("case", inner, [(("fn", "p_eq:('inner', 1)"), ("ds", "b1", {"params": [("opt", "B")]}))], None)
    out.append(("multi:case-no-default", ("cached", cs, "c"), [A3, B3]))
    co = ("coalesce", [inner, ("ds", "b1", {"params": [("opt", "B")]})])
    out.append(("multi:coalesce", ("ds", "user", {"params": [co]}), [A3, B3]))
    dm = ("optdom", "A", None, ("pred", "p_isint"))
    out.append(("multi:domain-predicate", ("ds", "user", {"params": [dm, ("opt", "B", ("val", 0))]}), [("A", [ABSENT, 1, "s"]), B3]))
    tp = ("tmpl", "{B}-{:p:}", {"p": inner})
    out.append(("multi:template-param", ("ds", "user", {"params": [tp]}), [A3, B3]))
    return out


def cases(tier, seed):
    out = []
    depths = [0, 1] if tier == "quick" else [0, 1, 2]
    for label, term, spec in _multi():
        out.append(("sys", label, term, spec))
    for depth in depths:
        ctxs = None if depth <= 1 else CORE2
        n = sum(1 for _ in cat.catalogue(depth, None, ctxs))
        step = 10 if depth <= 1 else 20
        for a in range(0, n, step):
            out.append(("batch", depth, a, min(n, a + step), tier, ctxs))
    return out


def _eager(label):
    ctx, _, leaf = label.rpartition(":")
    names = ctx.split("/") if ctx else []
    t = cat.final_type(names, leaf)
    return t not in ("i", "ii")


def callables(term):
    from .c06 import all_callables

    return sorted(all_callables(term))


def _top_cache(world, term):
    if term[0] == "cached":
        return world.caches.get(("cached", term[2]))
    if term[0] == "ds" and term[2].get("cache", "mem") != "none":
        return world.caches.get(("ds", term[1]))
    return None


def judge_failure(obj, got, world, ref_out, o, plausible=None):
    """Shape of one failing evaluation. Returns description or None."""
    from labrea.exceptions import EvaluationError, KeyNotFoundError

    e = got.exc
    if not isinstance(e, EvaluationError):
        return ("not-an-EvaluationError", f"{type(e).__name__}: {e}")
    if e.source is not obj:
        return ("wrong-source", f"source is {e.source!r}, evaluate() was called on {obj!r}")
    chain = cause_chain(e)
    injected = [x for x in chain if any(x is y for y in world.raised)]
    # the chain leads through the nested objects to the original exception: a link raised by the runtime's
    # own handler lookup ("no handler for this request type") does not belong there - every request type
    # used by an evaluation has a handler
    for x in chain:
        if isinstance(x, TypeError) and not any(x is y for y in world.raised):
            tb = x.__traceback__
            while tb is not None and tb.tb_next is not None:
                tb = tb.tb_next
            if tb is not None and tb.tb_frame.f_code.co_filename.replace("\\", "/").endswith("labrea/runtime.py"):
                return ("runtime-lookup-error-in-cause-chain", f"cause chain {[type(y).__name__ + ':' + str(y)[:50] for y in chain]}")
    if world.raised and any(x is world.raised[-1] for x in chain):
        return None
    knf = [x for x in chain if isinstance(x, KeyNotFoundError) and not any(x is y for y in world.raised)]
    if not ref_out.ok and ref_out.kind == "missing":
        if not knf:
            return ("missing-option-not-reported", f"reference: option {ref_out.key!r} is missing; cause chain: {[type(x).__name__ for x in chain]}")
        key = knf[-1].key
        if key != ref_out.key and (exists(o, key) or (plausible is not None and key not in plausible)):
            return ("wrong-missing-key", f"names {key!r}; reference says {ref_out.key!r} is missing (keys the term can read: {sorted(plausible or [])})")
        return None
    if not ref_out.ok and ref_out.kind == "user":
        if not injected and knf and not exists(o, knf[-1].key) and (plausible is None or knf[-1].key in plausible):
            # the evaluation has two reasons to fail (a raising callable and an absent option, found
            # first by the key inspection that precedes the body): either may be reported
            return None
        if not injected:
            return ("original-exception-lost", f"cause chain {[type(x).__name__ + ':' + str(x)[:40] for x in chain]} does not contain the injected exception object")
        return None
    return None


def check_system(label, term, spec, res, tier, excs=EXCS, do_b=True):
    fails = []
    reported = set()
    dicts = cat.dictionaries(spec)
    from ..terms import mentioned_keys

    plausible = set(mentioned_keys(term)) | {k for k, _ in spec} | {"B", "C"}

    def fail(kind, hist, d, faults):
        key = (kind,)
        if key in reported:
            return
        reported.add(key)
        fails.append({"sig": f"C12|{kind}|{label}|{faults!r}|{hist!r}", "what": f"{kind}: {label} with fault script {faults!r} after history {hist!r}",
                      "detail": d + " term=" + short(term, 400), "case": ("one", label, term, spec, faults, hist)})

    def one_script(faults, pairs):
        w, obj = make(term, "cached", faults=faults)
        wt, tobj = make(term, "nocache", faults=faults)
        system = CacheSystem(w)
        empty = system.snapshot()
        r = Ref(faults=faults)
        twin = []
        refs = []
        for o in dicts:
            wt.reset_log()
            twin.append(observe(wt, lambda: tobj.evaluate(copy.deepcopy(o))))
            refs.append(r.run(term, o))
            if not twin[-1].ok:
                # the same graph with caching switched off takes the plain evaluate() path everywhere: its
                # failures must have the same shape (source, cause chain, missing key)
                v = judge_failure(tobj, twin[-1], wt, refs[-1], o, plausible)
                if v:
                    fail("uncached:" + v[0], [o], v[1], faults)
        firsts = {}
        for j, o in enumerate(dicts):
            system.restore(empty)
            w.reset_log()
            topc = _top_cache(w, term)
            before = len(topc._cache) if topc is not None else 0
            got = observe(w, lambda: obj.evaluate(copy.deepcopy(o)))
            res["transitions"] += 1
            if not got.ok:
                res["failing"] += 1
                v = judge_failure(obj, got, w, refs[j], o, plausible)
                if v:
                    fail(v[0], [o], v[1], faults)
                topc = _top_cache(w, term)
                if topc is not None and len(topc._cache) != before:
                    fail("failed-evaluation-stored-an-entry", [o], f"top cache went from {before} to {len(topc._cache)} entries", faults)
            d = same_obs(got, twin[j], strict_kind=False)
            if d:
                fail("differs-from-memo-free-twin", [o], d, faults)
            if got.ok != refs[j].ok:
                fail("outcome-differs-from-reference", [o], f"impl {got!r} reference {refs[j]!r}", faults)
            firsts[j] = system.snapshot()
        if not pairs:
            return
        seen = set()
        for j in range(len(dicts)):
            k = CacheSystem.canon(firsts[j])
            if twin[j].ok:
                # the property speaks about what a FAILED evaluation leaves behind; what a successful one
                # leaves behind is C01's subject (and, with raising bodies, the recorded Coalesce.keys finding)
                continue
            if (k, twin[j].ok) in seen:
                continue
            seen.add((k, twin[j].ok))
            res["states"] += 1
            for j2, o2 in enumerate(dicts):
                system.restore(firsts[j])
                w.reset_log()
                got = observe(w, lambda: obj.evaluate(copy.deepcopy(o2)))
                res["transitions"] += 1
                if not got.ok:
                    res["failing"] += 1
                    v = judge_failure(obj, got, w, refs[j2], o2, plausible)
                    if v:
                        fail(v[0], [dicts[j], o2], v[1], faults)
                d = same_obs(got, twin[j2], strict_kind=False)
                if d:
                    fail("earlier-evaluation-changed-a-later-outcome", [dicts[j], o2], d, faults)

    # pass A: every callable x every exception type, always raising
    for kind, name in callables(term):
        for exc in excs:
            one_script({(kind, name): (exc, None)}, pairs=False)
            res["scripts"] += 1
    # pass B: histories
    if do_b:
        one_script({}, pairs=True)
        res["scripts"] += 1
        for kind, name in callables(term):
            if kind not in ("body", "fn", "effect", "pred"):
                continue
            # effects receive the dataset's value (never 1 or 2): make them raise always, so that a failed
            # evaluation is followed by evaluations of every dictionary on the same long-lived graph
            for when in ((None,) if kind == "effect" else (1, 2)):
                one_script({(kind, name): ("ValueError", when)}, pairs=True)
                res["scripts"] += 1
    return fails


def run_case(case):
    res = {"failures": [], "states": 0, "transitions": 0, "failing": 0, "scripts": 0, "systems": 0, "samples": []}
    if case[0] == "one":
        _, label, term, spec, faults, hist = case
        # plain replay of one history under one fault script
        w, obj = make(term, "cached", faults=faults)
        wt, tobj = make(term, "nocache", faults=faults)
        r = Ref(faults=faults)
        for n, o in enumerate(hist):
            w.reset_log()
            got = observe(w, lambda: obj.evaluate(copy.deepcopy(o)))
            want = observe(wt, lambda: tobj.evaluate(copy.deepcopy(o)))
            ref = r.run(term, o)
            res["transitions"] += 1
            d = same_obs(got, want, strict_kind=False)
            if d:
                res["failures"].append({"sig": "replay", "what": f"step {n}: differs from the twin", "detail": d, "case": case})
            if not got.ok:
                v = judge_failure(obj, got, w, ref, o)
                if v:
                    res["failures"].append({"sig": "replay", "what": f"step {n}: {v[0]}", "detail": v[1], "case": case})
        res["states"] = 1
        return res
    if case[0] == "sys":
        _, label, term, spec = case
        res["failures"] = check_system(label, term, spec, res, "quick")
        res["systems"] = 1
        res["samples"].append({"system": label, "term": short(term, 300), "callables": [list(c) for c in callables(term)]})
        return res
    _, depth, a, b, tier = case[:5]
    ctxs = case[5] if len(case) > 5 else None
    for label, term, spec in itertools.islice(cat.catalogue(depth, None, ctxs), a, b):
        if not _eager(label):
            continue
        res["systems"] += 1
        excs = EXCS if depth <= 1 else ["ValueError", "KeyNotFoundError", "StopIteration"]
        res["failures"].extend(check_system(label, term, spec, res, tier, excs=excs, do_b=True))
    res["states"] = max(res["states"], 1)
    return res


def summarize(results, tier):
    tot = lambda k: sum(r.get(k, 0) for r in results)  # noqa
    samples = []
    for r in results:
        samples.extend(r.get("samples", []))
    return {
        "states": max(1, tot("states")),
        "transitions": tot("transitions"),
        "traces_validated_against_impl": tot("transitions"),
        "evaluations": tot("transitions"),
        "distinct_nontrivial": tot("failing"),
        "fault_scripts": tot("scripts"),
        "systems": tot("systems"),
        "samples": samples[:6],
        "exhaustive": True,
    }

RULE += ' Session 4: switch keys / overload aliases of different types below a consumer and inside a coalesce.'
