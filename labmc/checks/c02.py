"""C02 - memoization is effective: one body run per relevant option assignment.

Explicit-state search over (cache contents, model memo set).  Transitions are
evaluate(entry, variant(o)) on the real objects, with variant in {exact, junk
keys added, junk keys changed, top-level key order reversed}.  The model memo
set holds the (dataset, projection of its effective options onto the keys its
sub-graph mentions) pairs the reference interpreter says were needed so far.
Oracle per transition, from the execution log of the real bodies/effects:
  * a cached dataset's body runs at most once per NEW pair (upper bound only:
    the implementation may legitimately depend on fewer keys);
  * a repeat (any variant) of a dictionary already evaluated runs no body of a
    cached dataset and no effect of one;
  * every effect run belongs to a body execution of its dataset in the same
    transition, comes after it, and receives the dataset's value.
"""
import copy
import itertools

from ..build import World, observe
from ..common import short
from ..kripke import CacheSystem
from ..optspace import ABSENT, is_absent, set_path
from ..ref import Ref, peek
from ..terms import dsprops, walk

ID = "C02"
LEVEL = "model_checking"
TECHNIQUE = "explicit-state BFS over (cache contents, model memo set) of dataset DAGs with body/effect execution counters as oracle"
RULE = (
    "systems = hand-listed dataset DAG shapes (chains, diamonds, overloads, pre-set/default options, nocache nodes mixed "
    "in, effects, Map over a cached dataset, with_options derivatives); actions = every dictionary of the product "
    "alphabet x {exact, +junk, junk changed, top-level order reversed} x entry; BFS with canonical-state dedup to depth 2 "
    "(3 for small alphabets; thorough 3/4); plus all histories of length <= 4 (5 thorough) mixing evaluations with "
    "add_effects / disable_effects / enable_effects / set_cache on a live dataset, (also on a with_options derivative) replayed on fresh objects; plus a router dataset whose implementation is "
    "added by the overload decorator / register under a memory-cached and a nocache parent; a transition is non-trivial when at least one cached body is skipped "
    "because of a cache hit; distinct_nontrivial counts systems with such transitions"
)
ASSUMPTIONS = [
    "'options it depends on' is over-approximated by the keys syntactically mentioned in the dataset's sub-graph plus keys referenced by templated values of the alphabet, so only an upper bound on body runs is demanded",
    "bodies, callbacks and effects are total here (failures are C12's business)",
]

A3 = ("A", [ABSENT, 1, 2])
B3 = ("B", [ABSENT, 1, 2])
A2 = ("A", [1, 2])
B2 = ("B", [1, 2])


def _systems():
    S = []
    inner = ("ds", "inner", {"params": [("opt", "A")]})
    mid1 = ("ds", "mid1", {"params": [inner, ("opt", "B", ("val", 0))]})
    mid2 = ("ds", "mid2", {"params": [inner]})
    top = ("ds", "top", {"params": [mid1, mid2]})
    S.append(("single", [inner], [A3]))
    S.append(("chain", [("ds", "outer", {"params": [mid1]}), mid1], [A3, B3]))
    S.append(("diamond", [top, inner], [A3, B3]))
    nc = ("ds", "nc", {"params": [inner], "cache": "none"})
    S.append(("nocache-in-middle", [("ds", "top2", {"params": [nc, inner]}), nc], [A3]))
    eff = ("ds", "eff", {"params": [("opt", "A")], "effects": ["e1", "e2"], "callback": ("fn", "cb")})
    S.append(("effects+callback", [eff, ("ds", "user", {"params": [eff, ("opt", "B", ("val", 0))]})], [A3, B3]))
    ov = ("ds", "ov", {"params": [("opt", "A")], "dispatch": ("optkey", "D"),
                       "overloads": [("x", ("ds", "implx", {"params": [("opt", "B")]})), ("y", ("val", "why"))], "effects": ["eo"]})
    S.append(("overloads", [ov, ("ds", "user", {"params": [ov]})], [A2, B2, ("D", [ABSENT, "x", "y", "zz"])]))
    disp = ("ds", "disp", {"params": [("opt", "D", ("val", "x"))]})
    ovd = ("ds", "ovd", {"params": [("opt", "A")], "dispatch": disp,
                         "overloads": [(("disp", "x"), ("opt", "B")), (("disp", "y"), ("val", "why"))]})
    S.append(("dataset-dispatch", [ovd], [A2, B2, ("D", [ABSENT, "x", "y"])]))
    pre = ("ds", "pre", {"params": [inner, ("opt", "B")], "options": {"A": 9}})
    S.append(("preset-options", [pre, inner], [A3, B2]))
    dfl = ("ds", "dfl", {"params": [inner, ("opt", "B")], "default_options": {"A": 9, "B": 8}})
    S.append(("default-options", [dfl, inner], [A3, B3]))
    base = ("ds", "base", {"params": [("opt", "A"), ("opt", "B", ("val", 0))], "effects": ["eb"]})
    S.append(("with_options", [("dswo", base, {"B": 9}), base, ("dswdo", base, {"B": 7})], [A3, ("B", [ABSENT, 9, 7])]))
    m = ("apply", ("mapvalues", inner, [("A", ("opt", "M"))]), ("fn", "f_list"))
    S.append(("map-over-cached", [("ds", "mp", {"params": [m]}), inner], [A3, ("M", [[1, 2], [2, 3], [1, 1]])]))
    sect = ("ds", "sect", {"params": [("opt", "S.X"), ("opt", "S.Y", ("val", 0))]})
    S.append(("section-members", [sect, ("ds", "whole", {"params": [("opt", "S")]})], [("S.X", [ABSENT, 1, 2]), ("S.Y", [ABSENT, 5]), ("S.Z", [ABSENT, 7])]))
    tv = ("ds", "tv", {"params": [("opt", "A")]})
    S.append(("templated-value", [tv], [("A", [1, "{B}", ["{B}"]]), B3]))
    td = ("ds", "td", {"params": [("opt", "A", ("tmpl", "{B}-x", {})), ("tmpl", "{C}/{:p:}", {"p": inner})]})
    S.append(("template-default+param", [td], [A3, B2, ("C", [1, 2])]))
    sw = ("switch", ("optkey", "D"), [("x", inner), ("y", ("ds", "other", {"params": [("opt", "B")]}))], ("val", "dflt"))
    S.append(("switch-of-datasets", [("ds", "sw", {"params": [sw]}), ("cached", sw, "c")], [A2, B2, ("D", [ABSENT, "x", "y"])]))
    co = ("coalesce", [inner, ("ds", "other", {"params": [("opt", "B")]}), ("val", "none")])
    S.append(("coalesce-of-datasets", [("ds", "co", {"params": [co]})], [A3, B3]))
    cs = ("case", inner, [(("fn", "p_eq:('inner', 1)"), ("ds", "other", {"params": [("opt", "B")]}))], ("val", "else"))
    S.append(("case-on-dataset", [("ds", "cs", {"params": [cs]})], [A3, B3]))
    bd = ("bind", ("opt", "A", ("val", 0)), [(1, inner), (2, ("ds", "other", {"params": [("opt", "B")]}))], ("val", "other"))
    S.append(("bind-to-datasets", [("ds", "bd", {"params": [bd]})], [A3, B2]))
    cc = ("cached", ("apply", ("opt", "A"), ("fn", "f")), "c")
    S.append(("cached-combinator", [cc, ("ds", "usecc", {"params": [cc, ("opt", "B", ("val", 0))]})], [A3, B3]))
    # datasets whose VALUE is falsy / None must be memoized like any other
    for lit in ("None", "0", "''", "[]", "False"):
        ld = ("ds", "loader", {"params": [("opt", "A")], "callback": ("fn", f"f_const:{lit}"), "effects": ["el"]})
        S.append((f"falsy-value:{lit}", [("ds", "use", {"params": [ld, ("ds", "mid", {"params": [ld]})]}), ld], [A3]))
    # a dataset that reads the whole dictionary: its key set is assembled in dictionary order, so
    # only a canonical (sorted) fingerprint makes a re-ordered repeat a cache hit
    S.append(("all-options", [("ds", "whole", {"params": [("all",)]})],
              [("Ka", [1]), ("Kb", [ABSENT, 2]), ("Kc", [3]), ("Kd", [ABSENT, 4]), ("Ke", [5]), ("Kf", [6]), ("Kg", [7]), ("Kh", [8])]))
    # a section pre-set on a derivative / by the decorator / by a wrapper below a cached consumer: caller entries
    # that are all overridden cannot matter to the consumer
    whole = ("ds", "whole", {"params": [("opt", "S")]})
    SXY = [("S.X", [ABSENT, 1, 2]), ("S.Y", [ABSENT, 5])]
    der = ("dswo", whole, {"S": {"X": 9}})
    S.append(("preset-section-derivative", [("ds", "report", {"params": [der]}), der], SXY))
    S.append(("preset-section-decorator", [("ds", "report", {"params": [("ds", "whole", {"params": [("opt", "S")], "options": {"S": {"X": 9}}})]})], SXY))
    S.append(("preset-section-wrapper", [("ds", "report", {"params": [("withopt", ("tuple", [("opt", "S"), ("opt", "S.X")]), {"S": {"X": 9}}, True)]})], SXY))
    # the same definition spelled as a chain of specialised factories (effects accumulate along the chain)
    effc = ("ds", "effc", {"params": [("opt", "A")], "effects": ["e1", "e2"], "callback": ("fn", "cb"), "factory": "chain"})
    S.append(("effects-factory-chain", [effc, ("ds", "user", {"params": [effc, ("opt", "B", ("val", 0))], "factory": "chain"})], [A3, B3]))
    ncc = ("ds", "ncc", {"params": [inner], "cache": "none", "effects": ["en"], "factory": "chain"})
    S.append(("nocache-factory-chain", [("ds", "top3", {"params": [ncc, inner]}), ncc], [A3]))
    # a body that works on its argument in place (sorts / pops / appends): the caller's dictionary and the
    # cache key are not affected by what a body does to what it was given
    mut = ("ds", "f_mutate", {"params": [("opt", "M")]})
    S.append(("mutating-body", [("ds", "usemut", {"params": [mut, ("ds", "mid", {"params": [mut]})]}), mut],
              [("M", [[2, 1], [1, 2], {"rows": [[1], [2]]}]), ("ZZ", [ABSENT, 1])]))
    three = ("ds", "three", {"params": [inner, mid2, ("ds", "leaf3", {"params": [("opt", "C", ("val", 0))]})]})
    S.append(("three-deps", [three], [A2, ("C", [ABSENT, 1])]))
    return S


# the second junk dictionary also spells out two of the library's own switches in a form that changes nothing
# (effects explicitly not disabled, logging off): no graph refers to them, so they must not cost a body run
JUNKS = [None, {"ZZ": 1}, {"ZZ": 2, "YY": {"K": [1]}, "LABREA": {"EFFECTS": {"DISABLED": False}, "LOGGING": {"DISABLED": True}}}]


def cases(tier, seed):
    out = []
    for i, (label, entries, spec) in enumerate(_systems()):
        n = 1
        for _, vs in spec:
            n *= len(vs)
        if tier == "quick":
            depth = 3 if n <= 9 else 2
        else:
            depth = 4 if n <= 9 else 3
        out.append(("sys", label, entries, spec, depth))
    for first in range(len(DYN_ACTIONS)):
        out.append(("dyn", first, 4 if tier == "quick" else 5))
    out.append(("router",))
    return out


def _dicts(spec):
    combos = list(itertools.product(*[range(len(vs)) for _, vs in spec]))
    dicts = []
    for combo in combos:
        d = {}
        for (k, vs), i in zip(spec, combo):
            if is_absent(vs[i]):
                continue
            set_path(d, k, copy.deepcopy(vs[i]))
        dicts.append(d)
    return dicts


def _value_refs(spec):
    """{key: keys referenced by '{X}' inside that key's alphabet values}"""
    from ..ref import scan_refs

    out = {}

    def strings(v):
        if isinstance(v, str):
            yield v
        elif isinstance(v, dict):
            for x in v.values():
                yield from strings(x)
        elif isinstance(v, list):
            for x in v:
                yield from strings(x)

    for k, vs in spec:
        for v in vs:
            if is_absent(v):
                continue
            for s in strings(v):
                for _, _, r in scan_refs(s):
                    out.setdefault(k, set()).add(r)
                    out.setdefault(k.split(".")[0], set()).add(r)
    return out


def variant(o, v):
    o = copy.deepcopy(o)
    if v == 0:
        return o
    if v in (1, 2):
        o.update(copy.deepcopy(JUNKS[v]))
        return o
    keys = list(o.keys())
    if v == 4:  # rotated
        keys = keys[3:] + keys[:3]
    elif v == 5:  # interleaved
        keys = keys[::2] + keys[1::2]
    else:
        keys = list(reversed(keys))
    return {k: o[k] for k in keys}


def _cached_names(entries):
    names = {}
    for t in entries:
        for n in walk(t):
            if n[0] == "ds":
                p = dsprops(n)
                names[n[1]] = p
    return names


DYN_ACTIONS = [("eval", {"A": 1}), ("eval", {"A": 2}), ("eval", {"A": 1, "ZZ": 1}), ("add_effect",), ("disable_effects",), ("enable_effects",),
               ("set_cache",), ("eval_user", {"A": 1}), ("eval_user", {"A": 2}), ("derive",), ("add_effect_der",), ("eval_der", {"A": 3}), ("eval_der", {"A": 1})]


def run_dynamic(hist):
    """Replay one history of evaluations mixed with stateful reconfiguration of a dataset (add_effects,
    disable/enable effects, set_cache) on fresh objects.  Model: current effect list, toggle, memo."""
    from labrea import Option, dataset
    from labrea.cache import MemoryCache

    log = []

    def body(a=Option("A")):
        log.append(("body", "d"))
        return ("d", a)

    def e0(v):
        log.append(("effect", "e0", v))

    def late(v):
        log.append(("effect", "late", v))

    d = dataset(body, effects=[e0])

    def ubody(x=d):
        log.append(("body", "user"))
        return ("user", x)

    user = dataset(ubody)
    effects = ["e0"]
    der = None
    der_effects = None

    def late_der(v):
        log.append(("effect", "late_der", v))

    enabled = True
    memo_d, memo_u = set(), set()
    for i, act in enumerate(hist):
        del log[:]
        if act[0] == "add_effect":
            if "late" in effects:
                return None, False
            d.add_effects(late)
            effects.append("late")
        elif act[0] == "disable_effects":
            d.disable_effects()
            enabled = False
        elif act[0] == "enable_effects":
            d.enable_effects()
            enabled = True
        elif act[0] == "derive":
            if der is not None:
                return None, False
            # a derivative shares cache and overloads, but effects attached later belong to one of the two
            der = d.with_options({"ZZ": 7})
            der_effects = list(effects)
        elif act[0] == "add_effect_der":
            if der is None or "late_der" in der_effects:
                return None, False
            der.add_effects(late_der)
            der_effects.append("late_der")
        elif act[0] == "eval_der":
            if der is None:
                return None, False
            o = dict(act[1])
            a = o["A"]
            got = observe(None, lambda: der.evaluate(copy.deepcopy(o)))
            if not got.ok or got.value != ("d", a):
                return (i, f"derivative value {got!r}"), True
            need = a not in memo_d
            nb = sum(1 for e in log if e[:2] == ("body", "d"))
            if nb != (1 if need else 0):
                return (i, f"body of d ran {nb}x through the derivative, expected {1 if need else 0}; log={log}"), True
            if need:
                memo_d.add(a)
            exp_eff = [(n, ("d", a)) for n in der_effects] if need else []
            got_eff = [(e[1], e[2]) for e in log if e[0] == "effect"]
            if got_eff != exp_eff:
                return (i, f"effects of the derivative ran {got_eff}, expected {exp_eff}"), True
        elif act[0] == "set_cache":
            d.set_cache(MemoryCache())
            if der is not None:
                return None, False  # the derivative keeps the old cache: two memo sets, not modelled
            memo_d = set()
        else:
            o = dict(act[1])
            a = o["A"]
            target = d if act[0] == "eval" else user
            got = observe(None, lambda: target.evaluate(copy.deepcopy(o)))
            want = ("d", a) if act[0] == "eval" else ("user", ("d", a))
            if not got.ok or got.value != want:
                return (i, f"value {got!r}, expected {want!r}"), True
            need_d = (act[0] == "eval" or a not in memo_u) and a not in memo_d
            if act[0] == "eval_user":
                memo_u.add(a)
            nb = sum(1 for e in log if e[:2] == ("body", "d"))
            if nb != (1 if need_d else 0):
                return (i, f"body of d ran {nb}x, expected {1 if need_d else 0}; log={log}"), True
            if need_d:
                memo_d.add(a)
            exp_eff = [(n, ("d", a)) for n in effects] if (need_d and enabled) else []
            got_eff = [(e[1], e[2]) for e in log if e[0] == "effect"]
            if got_eff != exp_eff:
                return (i, f"effects ran {got_eff}, expected {exp_eff} (current effect list {effects}, enabled={enabled})"), True
    return None, True


def run_router(parent_cache, impl_form, hist):
    """A router dataset (dispatch only) whose implementation is added with the overload decorator /
    register; consumers share it in a diamond.  The implementation is a dataset of its own: its body
    runs once per assignment of ITS options, whatever caching policy the router has."""
    from labrea import Option, dataset

    log = []

    def router_body():
        return "no-source"

    factory = dataset.nocache if parent_cache == "nocache" else dataset
    source = factory(router_body, dispatch="SRC")

    def from_db(url=Option("URL")):
        log.append(("body", "from_db"))
        return ("db", url)

    def eff(v):
        log.append(("effect", "from_db", v))

    if impl_form == "decorator-function":
        source.overload("db")(from_db)
    elif impl_form == "decorator-dataset":
        source.overload("db")(dataset(from_db, effects=[eff]))
    else:
        source.register("db", dataset(from_db, effects=[eff]))

    def left(s=source):
        return ("left", s)

    def right(s=source):
        return ("right", s)

    L, R = dataset(left), dataset(right)

    def report(l=L, r=R):
        return (l, r)

    rep = dataset(report)
    seen = set()
    for i, url in enumerate(hist):
        del log[:]
        got = observe(None, lambda: rep.evaluate({"SRC": "db", "URL": url}))
        want = (("left", ("db", url)), ("right", ("db", url)))
        if not got.ok or got.value != want:
            return (i, f"value {got!r}, expected {want!r}")
        nb = sum(1 for e in log if e[:2] == ("body", "from_db"))
        exp = 0 if url in seen else 1
        if nb != exp:
            return (i, f"implementation body ran {nb}x for URL={url!r}, expected {exp} (shared by two consumers, evaluated before: {url in seen}); log={log}")
        ne = sum(1 for e in log if e[0] == "effect")
        if impl_form != "decorator-function" and ne != exp:
            return (i, f"implementation effect ran {ne}x, expected {exp}")
        seen.add(url)
    return None


def run_case(case):
    res = {"failures": [], "states": 0, "transitions": 0, "hits": 0, "systems": 0, "nontrivial": 0, "samples": [],
           "closed": 0, "body_runs": 0, "effect_runs": 0}
    if case[0] == "router":
        for parent_cache in ("mem", "nocache"):
            for impl_form in ("decorator-function", "decorator-dataset", "register"):
                for n in (1, 2, 3):
                    for hist in itertools.product(("u1", "u2"), repeat=n):
                        bad = run_router(parent_cache, impl_form, hist)
                        res["transitions"] += len(hist)
                        res["states"] += 1
                        if bad and not any(f["sig"].startswith(f"C02|router|{parent_cache}|{impl_form}") for f in res["failures"]):
                            res["failures"].append({"sig": f"C02|router|{parent_cache}|{impl_form}|{list(hist)[: bad[0] + 1]}",
                                                    "what": f"router dataset ({parent_cache}) with implementation added by {impl_form}, evaluations of URL {list(hist)[: bad[0] + 1]}",
                                                    "detail": bad[1], "case": ("router",)})
        res["systems"] = 1
        res["nontrivial"] = 1
        return res
    if case[0] == "dyn":
        _, first, L = case
        for n in range(1, L + 1):
            for rest in itertools.product(range(len(DYN_ACTIONS)), repeat=n - 1):
                hist = [DYN_ACTIONS[first]] + [DYN_ACTIONS[j] for j in rest]
                bad, ok = run_dynamic(hist)
                if not ok:
                    continue
                res["transitions"] += len(hist)
                res["states"] += 1
                if bad and not res["failures"]:
                    res["failures"].append({"sig": f"C02|dynamic|{hist[: bad[0] + 1]!r}", "what": f"after the reconfiguration history {hist[: bad[0] + 1]!r}",
                                            "detail": bad[1], "case": ("dyn1", hist[: bad[0] + 1])})
        res["systems"] = 1
        res["nontrivial"] = 1
        return res
    if case[0] == "dyn1":
        hist = [tuple(a) if len(a) == 1 else (a[0], dict(a[1])) for a in case[1]]
        bad, ok = run_dynamic(hist)
        res["states"] = 1
        res["transitions"] = len(hist)
        if bad:
            res["failures"].append({"sig": "replay", "what": "reconfiguration history", "detail": bad[1], "case": case})
        return res
    if case[0] == "hist":
        _, label, entries, spec, hist = case
        fl = _replay(label, entries, spec, hist)
        res["failures"] = fl
        res["states"] = 1
        res["transitions"] = len(hist)
        return res
    _, label, entries, spec, depth = case
    dicts = _dicts(spec)
    vrefs = _value_refs(spec)
    variants = (0, 3, 4, 5) if label == "all-options" else (0, 1, 2, 3)
    actions = [(e, j, v) for e in range(len(entries)) for j in range(len(dicts)) for v in variants]
    w = World("cached")
    objs = [w.build(t) for t in entries]
    w.start()
    system = CacheSystem(w)
    names = _cached_names(entries)
    ref = Ref(value_refs=vrefs)
    ref_cache = {}

    def ref_events(e, j):
        if (e, j) not in ref_cache:
            out = ref.run(entries[e], dicts[j])
            ref_cache[(e, j)] = (out.ok, list(ref.body_events), list(ref.effect_events))
        return ref_cache[(e, j)]

    init = (system.snapshot(), frozenset(), frozenset())
    seen = {(system.canon(init[0]), init[1], init[2])}
    frontier = [(init, [])]
    reported = set()
    d = 0
    while frontier and d < depth:
        nxt = []
        for (snap, memo, done), hist in frontier:
            for ai, (e, j, v) in enumerate(actions):
                system.restore(snap)
                w.reset_log()
                o = variant(dicts[j], v)
                got = observe(w, lambda: objs[e].evaluate(o))
                res["transitions"] += 1
                ok, bev, eev = ref_events(e, j)
                fl = _oracle(label, w, got, names, memo, done, (e, j), bev, eev, ok)
                runs = sum(1 for k, n in w.log if k == "body")
                res["body_runs"] += runs
                res["effect_runs"] += sum(1 for k, n in w.log if k == "effect")
                if (e, j) in done or any((n, p) in memo for n, p in bev):
                    res["hits"] += 1
                for what in fl:
                    key = what.split(":")[0]
                    if key not in reported:
                        reported.add(key)
                        h = [(actions[a][0], actions[a][1], actions[a][2]) for a in hist + [ai]]
                        res["failures"].append(_fail(label, entries, spec, h, what, dicts))
                memo2 = frozenset(memo | set(bev))
                done2 = frozenset(done | ({(e, j)} if got.ok else set()))
                ns = system.snapshot()
                k = (system.canon(ns), memo2, done2)
                if k not in seen:
                    seen.add(k)
                    nxt.append(((ns, memo2, done2), hist + [ai]))
        frontier = nxt
        d += 1
    res["states"] = len(seen)
    res["systems"] = 1
    res["closed"] = 0 if frontier else 1
    res["nontrivial"] = 1 if res["hits"] else 0
    res["samples"].append({"system": label, "entries": [short(t, 160) for t in entries], "dictionaries": len(dicts),
                           "actions": len(actions), "states": len(seen), "transitions": res["transitions"],
                           "depth": d, "closed": not frontier})
    return res


def _oracle(label, w, got, names, memo, done, ej, bev, eev, ref_ok):
    """Returns a list of violation descriptions for one transition."""
    out = []
    log = w.log
    if got.ok != ref_ok:
        # values are C01's / C05's subject; here only: an evaluation the reference can carry out is carried out
        out.append(f"outcome:{got!r} although the reference evaluation {'succeeds' if ref_ok else 'fails'}")
    runs = {}
    for k, n in log:
        if k == "body":
            runs[n] = runs.get(n, 0) + 1
    new = {}
    for n, p in set(bev):
        if (n, p) not in memo:
            new[n] = new.get(n, 0) + 1
    cached = {n for n, p in names.items() if p["cache"] != "none"}
    for n, c in runs.items():
        if n in cached and c > new.get(n, 0):
            out.append(f"body-reran:{n} ran {c}x but only {new.get(n, 0)} new assignment(s) of its options were needed; log={log}")
    if ej in done:
        for k, n in log:
            if (k == "body" and n in cached) or (k == "effect" and _owner(names, n) in cached):
                out.append(f"repeat-not-served-from-cache:{k} {n} ran on a repeat of an already evaluated dictionary; log={log}")
                break
    # effects: one per body execution of the owner, after it, with its value
    for n, p in names.items():
        if not p["effects"] or p["overloads"]:
            continue
        nb = runs.get(n, 0)
        for eff in p["effects"]:
            ne = sum(1 for k, x in log if k == "effect" and x == eff)
            if got.ok and ne != nb:
                out.append(f"effect-count:{eff} ran {ne}x for {nb} body execution(s) of {n}; log={log}")
            idx_b = [i for i, (k, x) in enumerate(log) if k == "body" and x == n]
            idx_e = [i for i, (k, x) in enumerate(log) if k == "effect" and x == eff]
            if idx_e and (not idx_b or min(idx_e) < min(idx_b)):
                out.append(f"effect-order:{eff} ran before the body of {n}; log={log}")
    if got.ok:
        want = {}
        for e, v in eev:
            want.setdefault(e, []).append(repr(v))
        for e, v in w.effect_values:
            if repr(v) not in want.get(e, []):
                out.append(f"effect-value:{e} received {v!r}, expected one of {want.get(e)}")
    return out


def _owner(names, eff):
    for n, p in names.items():
        if eff in p["effects"]:
            return n
    return None


def _replay(label, entries, spec, hist):
    dicts = _dicts(spec)
    vrefs = _value_refs(spec)
    w = World("cached")
    objs = [w.build(t) for t in entries]
    w.start()
    names = _cached_names(entries)
    ref = Ref(value_refs=vrefs)
    memo, done = set(), set()
    fails = []
    for n, (e, j, v) in enumerate(hist):
        w.reset_log()
        o = variant(dicts[j], v)
        got = observe(w, lambda: objs[e].evaluate(o))
        out = ref.run(entries[e], dicts[j])
        bev, eev = list(ref.body_events), list(ref.effect_events)
        for what in _oracle(label, w, got, names, frozenset(memo), frozenset(done), (e, j), bev, eev, out.ok):
            fails.append(_fail(label, entries, spec, hist[: n + 1], what, dicts))
        memo |= set(bev)
        if got.ok:
            done.add((e, j))
    return fails


def _fail(label, entries, spec, hist, what, dicts):
    readable = [(e, variant(dicts[j], v)) for e, j, v in hist]
    return {
        "sig": f"C02|{label}|{what.split(':')[0]}|{hist!r}",
        "what": f"{what.split(':')[0]} in system {label} after history {readable!r}",
        "detail": what[:800] + " entries=" + short(entries, 400),
        "case": ("hist", label, entries, spec, hist),
    }


def summarize(results, tier):
    tot = lambda k: sum(r.get(k, 0) for r in results)  # noqa
    samples = []
    for r in results:
        samples.extend(r.get("samples", []))
    return {
        "states": tot("states"),
        "transitions": tot("transitions"),
        "traces_validated_against_impl": tot("transitions"),
        "evaluations": tot("transitions"),
        "distinct_nontrivial": tot("nontrivial"),
        "systems": tot("systems"),
        "systems_closed_to_fixpoint": tot("closed"),
        "transitions_with_cache_hits": tot("hits"),
        "body_runs_observed": tot("body_runs"),
        "effect_runs_observed": tot("effect_runs"),
        "samples": samples[:6],
        "exhaustive": True,
    }
