"""C16 - feature switches change side behaviour only, never values.

Explicit-state search over cache contents: every evaluation of a history picks
one element of the full cross product  cache {on, LABREA.CACHE.DISABLED,
LABREA.CACHE.DISABLE, cache.disabled() context} x effects {on, option,
per-dataset toggle} x logging {on, option, logging.disabled() context}, on a
graph built with memory caches and on the same graph built with nocache.
"""
import copy
import itertools
import logging as pylogging

from ..build import World, observe
from ..common import same_obs, short
from ..kripke import CacheSystem
from ..optspace import ABSENT, is_absent, set_path
from ..terms import dsprops, walk

ID = "C16"
LEVEL = "model_checking"
TECHNIQUE = "explicit-state BFS over cache contents with the switch cross product chosen per transition; counters of bodies, effects, log requests and emitted records as oracle; differential value oracle against the all-switches-off twin"
RULE = (
    "graphs: single, diamond, pre-set options, Map over a cached dataset, overload by dataset, with_options / with_default_options derivatives next to their dataset, dataset with a "
    "LogEffect, each built with memory caches and with nocache; actions = dictionary x 4 cache settings x 3 effect "
    "settings x 3 logging settings (36 switch combinations); BFS with canonical cache-state dedup to depth 3 quick / "
    "4 thorough.  Checked per transition: value = twin; cache disabled => bodies run exactly as in the memo-free twin "
    "and cache contents identical before/after; effects disabled => no effect runs, else one per body run of its "
    "dataset; logging disabled => nothing emitted and (context) no request reaches the previous handler, else the "
    "emitted INFO records = log requests = dataset computations (+ log effects); the same dataset options evaluated "
    "again with the cache on run no body whatever the other switches were; the per-dataset toggle is set "
    "idempotently before every evaluation.  Non-trivial = transitions with at least one switch on."
)
ASSUMPTIONS = [
    "LABREA.CACHE.DISABLED: False together with LABREA.CACHE.DISABLE: True is not generated; with_options derivatives taken after disable_effects() are not generated (DESIGN section 5)",
    "graphs contain no AllOptions (the LABREA.* switch keys are part of the dictionary it would return)",
]

A3 = ("A", [ABSENT, 1, 2])
B2 = ("B", [ABSENT, 1])


def _graphs():
    G = []
    inner = ("ds", "inner", {"params": [("opt", "A")], "effects": ["ei"]})
    mid1 = ("ds", "mid1", {"params": [inner, ("opt", "B", ("val", 0))], "callback": ("fn", "cb"), "effects": ["em"]})
    mid2 = ("ds", "mid2", {"params": [inner]})
    top = ("ds", "top", {"params": [mid1, mid2], "effects": ["et1", "et2"]})
    G.append(("single", inner, [A3]))
    G.append(("diamond", top, [A3, B2]))
    pre = ("ds", "pre", {"params": [inner, ("opt", "B", ("val", 0))], "options": {"A": 9}, "default_options": {"B": 7}, "effects": ["ep"]})
    G.append(("preset", pre, [A3, B2]))
    prec = ("ds", "prec", {"params": [inner, ("opt", "B", ("val", 0))], "options": {"A": 9}, "default_options": {"B": 7}, "effects": ["ep", "ep2"], "callback": ("fn", "cb"), "factory": "chain"})
    G.append(("preset-factory-chain", prec, [A3, B2]))
    m = ("ds", "mp", {"params": [("apply", ("mapvalues", inner, [("A", ("opt", "M", ("val", [1, 2])))]), ("fn", "f_list"))], "effects": ["emp"]})
    G.append(("map", m, [("M", [ABSENT, [2, 3]])]))
    ov = ("ds", "ov", {"params": [("opt", "A")], "dispatch": ("optkey", "D"), "overloads": [("x", ("ds", "implx", {"params": [("opt", "B", ("val", 0))], "effects": ["ex"]}))], "effects": ["eo"]})
    G.append(("overload", ov, [("A", [1, 2]), B2, ("D", [ABSENT, "x"])]))
    # derivatives made with with_options / with_default_options share everything with their dataset - also its
    # being declared nocache
    base = ("ds", "base", {"params": [("opt", "A"), ("opt", "B", ("val", 0))], "effects": ["eb"]})
    dv = ("ds", "dv", {"params": [("dswo", base, {"B": 9}), ("dswdo", base, {"B": 7}), base], "effects": ["ed"]})
    G.append(("derivatives", dv, [A3, B2]))
    le = ("ds", "le", {"params": [inner], "effects": ["log:audit", "elog"]})
    G.append(("log-effect", le, [A3]))
    return G


TEMPLATED_ACTIONS = [("DISABLED_T", "on", "on"), ("DISABLE_T", "on", "on"), ("off_T", "on", "on"), ("on", "option_T", "on"), ("on", "off_T", "on"),
                     ("on", "on", "option_T"), ("on", "on", "off_T"), ("DISABLED_T", "option_T", "option_T"), ("off_T", "off_T", "off_T")]
CACHE = ["on", "DISABLED", "DISABLE", "ctx"]
EFFECTS = ["on", "option", "toggle"]
LOGGING = ["on", "option", "ctx"]


class Capture(pylogging.Handler):
    def __init__(self):
        super().__init__(level=0)
        self.records = []

    def emit(self, record):
        self.records.append((record.levelno, record.name, record.getMessage()))


def _dicts(spec):
    combos = list(itertools.product(*[range(len(vs)) for _, vs in spec]))
    out = []
    for combo in combos:
        d = {}
        for (k, vs), i in zip(spec, combo):
            if not is_absent(vs[i]):
                set_path(d, k, copy.deepcopy(vs[i]))
        out.append(d)
    return out


def check_interface_members(res):
    """Datasets that are members of an interface (given as a dataset, as a function, and the implementation's
    override): the per-dataset effects toggle set on a member - before or after the interface was defined -
    holds for every evaluation that goes through the interface, for every dispatch value and cache setting."""
    from labrea import Option, dataset, implements, interface

    fails = []
    for when in ("toggle-before-interface", "toggle-after-interface"):
        for cache_opt in ({}, {"LABREA": {"CACHE": {"DISABLED": True}}}):
            ran = []

            def eff(v):
                ran.append(v)

            def body(x=Option("A", 0)):
                return ("member", x)

            member = dataset(body, effects=[eff])
            if when == "toggle-before-interface":
                member.disable_effects()
            I = interface("IMPL")(type("I", (), {"m": member}))
            if when == "toggle-after-interface":
                I.m.disable_effects()

            def impl_body(x=Option("A", 0)):
                return ("impl", x)

            implements(I, alias="x")(type("X", (), {"m": dataset(impl_body)}))
            user = dataset(lambda v=I.m: ("user", v))
            for o in ({"A": 1}, {"A": 1, "IMPL": "zz"}, {"A": 2}, {"A": 1, "IMPL": "x"}):
                oo = dict(o, **cache_opt)
                res["transitions"] += 1
                got = observe(None, lambda: user.evaluate(copy.deepcopy(oo)))
                want = ("user", ("impl", o["A"])) if o.get("IMPL") == "x" else ("user", ("member", o["A"]))
                if not got.ok or got.value != want:
                    fails.append({"sig": f"C16|interface|value|{when}|{oo!r}", "what": f"interface member ({when}) under {oo!r}: {got!r}, expected {want!r}", "detail": "", "case": ("interface",)})
                if ran:
                    fails.append({"sig": f"C16|interface|effects-disabled-but-ran|{when}", "what": f"the effect of an interface member whose effects are disabled ({when}) ran under {oo!r}", "detail": repr(ran), "case": ("interface",)})
                    break
            # switched on again, the effect runs once per computation of the member
            I.m.enable_effects()
            del ran[:]
            got = observe(None, lambda: user.evaluate({"A": 7}))
            if ran != [("member", 7)]:
                fails.append({"sig": f"C16|interface|effects-enabled-count|{when}", "what": f"after enable_effects() on the interface member ({when}) the effect ran {ran!r} for one computation", "detail": repr(got), "case": ("interface",)})
    seen = set()
    return [f for f in fails if not (f["sig"] in seen or seen.add(f["sig"]))]


def cases(tier, seed):
    depth = 3 if tier == "quick" else 4
    out = [("interface",)]
    for gi in range(len(_graphs())):
        for mode in ("mem", "nocache"):
            out.append(("sys", gi, mode, depth))
    return out


def _nocache_term(t):
    """The same graph with every dataset declared nocache."""
    if isinstance(t, tuple):
        if t and t[0] == "ds":
            p = dict(t[2])
            p["cache"] = "none"
            return ("ds", t[1] + "", {k: _nocache_term(v) for k, v in p.items()})
        return tuple(_nocache_term(x) for x in t)
    if isinstance(t, list):
        return [_nocache_term(x) for x in t]
    if isinstance(t, dict):
        return {k: _nocache_term(v) for k, v in t.items()}
    return t


class Rig:
    def __init__(self, term, mode):
        self.term = _nocache_term(term) if mode == "nocache" else term
        self.w = World("cached")
        self.obj = self.w.build(self.term)
        self.w.start()
        self.wt = World("nocache")
        self.tobj = self.wt.build(term)
        self.wt.start()
        self.system = CacheSystem(self.w)
        self.names = {n[1]: dsprops(n) for n in walk(self.term) if n[0] == "ds"}
        self.capture = Capture()
        self.logger = pylogging.getLogger("labmc_fixture")
        # with_options / with_default_options derivatives log under the library's own module name
        self.logger2 = pylogging.getLogger("labrea.dataset")
        self.requests = []
        self.logeffects = {n: sum(1 for e in p["effects"] if isinstance(e, str) and e.startswith("log:")) for n, p in self.names.items()}

    def run(self, o, c, e, l):
        """One evaluation under the given switch setting. Returns (obs, body log, effect log, records, requests)."""
        import labrea.cache
        import labrea.logging
        from labrea import runtime
        from labrea.logging import LogRequest

        opts = copy.deepcopy(o)
        lab = {}
        # switch values given as references to other options ("{SW.ON}" holds True, "{SW.OFF}" holds False):
        # option values are templated like any other option
        if any(x in TEMPLATED for x in (c, e, l)):
            opts["SW"] = {"ON": True, "OFF": False}
        if c in ("DISABLED_T", "DISABLE_T", "off_T"):
            lab.setdefault("CACHE", {})["DISABLE" if c == "DISABLE_T" else "DISABLED"] = "{SW.OFF}" if c == "off_T" else "{SW.ON}"
        if e in ("option_T", "off_T"):
            lab.setdefault("EFFECTS", {})["DISABLED"] = "{SW.OFF}" if e == "off_T" else "{SW.ON}"
        if l in ("option_T", "off_T"):
            lab.setdefault("LOGGING", {})["DISABLED"] = "{SW.OFF}" if l == "off_T" else "{SW.ON}"
        if c == "DISABLED":
            lab.setdefault("CACHE", {})["DISABLED"] = True
        if c == "DISABLE":
            lab.setdefault("CACHE", {})["DISABLE"] = True
        if e == "option":
            lab.setdefault("EFFECTS", {})["DISABLED"] = True
        if l == "option":
            lab.setdefault("LOGGING", {})["DISABLED"] = True
        if lab:
            opts["LABREA"] = lab
        self.w.reset_log()
        self.capture.records = []
        self.requests = []
        old_level, old_prop = self.logger.level, self.logger.propagate
        old_level2, old_prop2 = self.logger2.level, self.logger2.propagate
        for lg in (self.logger, self.logger2):
            lg.setLevel(pylogging.INFO)
            lg.propagate = False
            lg.addHandler(self.capture)
        prev = runtime.current_runtime().handlers[LogRequest]

        def recorder(request):
            self.requests.append((request.level, request.name))
            return prev(request)

        # the per-dataset toggle is put into the wanted position before every evaluation with plain,
        # idempotent calls (disable_effects() / enable_effects() are switches, not a counter)
        for d in [d[1] for d in self.w.datasets.values()] + [n for n in self.w.nodes.values() if hasattr(n, "disable_effects")]:
            # every dataset object of the graph, derivatives included
            if e == "toggle":
                d.disable_effects()
            else:
                d.enable_effects()
        try:
            with runtime.handle(LogRequest, recorder):
                ctxs = []
                # like "with cache.disabled(), logging.disabled():" - each context is created after
                # the previous one was entered (disabled() derives from the then-current runtime)
                # "ctx_outer": the other nesting, "with logging.disabled(), cache.disabled():"
                if l == "ctx_outer":
                    ctxs.append(labrea.logging.disabled())
                    ctxs[-1].__enter__()
                if c == "ctx":
                    ctxs.append(labrea.cache.disabled())
                    ctxs[-1].__enter__()
                if l == "ctx":
                    ctxs.append(labrea.logging.disabled())
                    ctxs[-1].__enter__()
                try:
                    got = observe(self.w, lambda: self.obj.evaluate(opts))
                finally:
                    for cm in reversed(ctxs):
                        cm.__exit__(None, None, None)
        finally:
            for lg, lv, pr in ((self.logger, old_level, old_prop), (self.logger2, old_level2, old_prop2)):
                lg.removeHandler(self.capture)
                lg.setLevel(lv)
                lg.propagate = pr
        return got, list(self.w.log), list(self.capture.records), list(self.requests)


def owner(names, eff):
    for n, p in names.items():
        if eff in p["effects"]:
            return n
    return None


TEMPLATED = ("DISABLED_T", "DISABLE_T", "option_T", "off_T")
_CANON = {"DISABLED_T": "DISABLED", "DISABLE_T": "DISABLE", "option_T": "option", "off_T": "on"}


def judge(rig, label, mode, o, c, e, l, got, log, records, requests, twin, twin_log, before, after, earlier_on=False):
    out = []
    c, e, l = _CANON.get(c, c), _CANON.get(e, e), _CANON.get(l, l)
    d = same_obs(got, twin)
    if d:
        out.append(f"value-changed: {d}")
    bodies = sorted(n for k, n in log if k == "body")
    effects = [n for k, n in log if k == "effect"]
    tb = sorted(n for k, n in twin_log if k == "body")
    cache_off = c != "on" or mode == "nocache"
    if cache_off and got.ok:
        if bodies != tb:
            out.append(f"cache-disabled-but-not-recomputed: bodies run {bodies}, memo-free evaluation runs {tb}")
    if c != "on" and before != after:
        out.append("cache-disabled-but-entries-written: cache contents changed")
    if e != "on":
        if effects:
            out.append(f"effects-disabled-but-ran: {effects}")
    elif got.ok:
        for n, p in rig.names.items():
            if p["overloads"]:
                continue
            nb = sum(1 for k, x in log if k == "body" and x == n)
            for eff in p["effects"]:
                if eff.startswith("log:"):
                    continue
                ne = effects.count(eff)
                if ne != nb:
                    out.append(f"effect-count: {eff} ran {ne}x for {nb} body execution(s) of {n}")
    if c == "on" and mode == "mem" and got.ok and earlier_on and bodies:
        out.append(f"stored-value-not-reused: the same dataset options were evaluated before with the cache on, yet bodies ran again: {bodies}")
    if l != "on":
        if records:
            out.append(f"logging-disabled-but-emitted: {records}")
        if l in ("ctx", "ctx_outer") and requests:
            out.append(f"logging-disabled-by-context-but-request-reached-previous-handler: {requests}")
    elif got.ok:
        computed = len([1 for k, n in log if k == "body"])
        # a LogEffect attached to a dataset issues one more request per computation of that dataset (effects on)
        extra = sum(rig.logeffects.get(n, 0) for k, n in log if k == "body") if e == "on" else 0
        # datasets whose selected implementation is an overload compute without running their own body
        if not any(p["overloads"] for p in rig.names.values()):
            if len(requests) != computed + extra:
                out.append(f"log-request-count: {len(requests)} log requests for {computed} dataset computations (+{extra} log effects)")
        if len(records) != len(requests):
            out.append(f"log-emission-count: {len(records)} records emitted for {len(requests)} log requests")
        if any(lv != pylogging.INFO for lv, _, _ in records) or any(lv != pylogging.INFO for lv, _ in requests):
            out.append(f"log-level: {records} {requests}")
    return out


def run_case(case):
    res = {"failures": [], "states": 0, "transitions": 0, "nontrivial": 0, "samples": []}
    if case[0] == "interface":
        res["failures"] = check_interface_members(res)
        return res
    if case[0] == "hist":
        _, gi, mode, hist = case
        label, term, spec = _graphs()[gi]
        rig = Rig(term, mode)
        done_on = []
        for n, (o, c, e, l) in enumerate(hist):
            before = CacheSystem.canon(rig.system.snapshot())
            got, log, records, requests = rig.run(o, c, e, l)
            after = CacheSystem.canon(rig.system.snapshot())
            rig.wt.reset_log()
            twin = observe(rig.wt, lambda: rig.tobj.evaluate(copy.deepcopy(o)))
            for v in judge(rig, label, mode, o, c, e, l, got, log, records, requests, twin, list(rig.wt.log), before, after, earlier_on=(o in done_on)):
                res["failures"].append(_fail(gi, label, mode, hist[: n + 1], v))
            if c == "on" and got.ok:
                done_on.append(o)
        res["states"] = 1
        res["transitions"] = len(hist)
        return res
    _, gi, mode, depth = case
    label, term, spec = _graphs()[gi]
    dicts = _dicts(spec)
    rig = Rig(term, mode)
    twins = []
    for o in dicts:
        rig.wt.reset_log()
        twins.append((observe(rig.wt, lambda: rig.tobj.evaluate(copy.deepcopy(o))), list(rig.wt.log)))
    actions = [(j, c, e, l) for j in range(len(dicts)) for c in CACHE for e in EFFECTS for l in LOGGING]
    # both nestings of the two context managers (they differ only when both are used)
    actions += [(j, "ctx", e, "ctx_outer") for j in range(len(dicts)) for e in EFFECTS]
    # the option spellings with the value given as a reference to another option (true and false)
    actions += [(j,) + t for j in range(len(dicts)) for t in TEMPLATED_ACTIONS]
    init = rig.system.snapshot()
    seen = {(CacheSystem.canon(init), frozenset())}
    frontier = [(init, [], frozenset())]
    reported = set()
    d = 0
    while frontier and d < depth:
        nxt = []
        for snap, hist, done_on in frontier:
            for ai, (j, c, e, l) in enumerate(actions):
                rig.system.restore(snap)
                before = CacheSystem.canon(snap)
                got, log, records, requests = rig.run(dicts[j], c, e, l)
                ns = rig.system.snapshot()
                after = CacheSystem.canon(ns)
                res["transitions"] += 1
                if (c, e, l) != ("on", "on", "on"):
                    res["nontrivial"] += 1
                for v in judge(rig, label, mode, dicts[j], c, e, l, got, log, records, requests, twins[j][0], twins[j][1], before, after, earlier_on=(j in done_on)):
                    kind = v.split(":")[0]
                    if kind not in reported:
                        reported.add(kind)
                        h = [(dicts[actions[a][0]],) + tuple(actions[a][1:]) for a in hist + [ai]]
                        res["failures"].append(_fail(gi, label, mode, h, v))
                done2 = frozenset(done_on | ({j} if (c == "on" and got.ok) else set()))
                if (after, done2) not in seen:
                    seen.add((after, done2))
                    nxt.append((ns, hist + [ai], done2))
        frontier = nxt
        d += 1
    res["states"] = len(seen)
    res["samples"].append({"graph": label, "build": mode, "dictionaries": len(dicts), "actions": len(actions), "states": len(seen),
                           "example_action": [dicts[-1], "ctx", "toggle", "option"], "closed": not frontier})
    return res


def _fail(gi, label, mode, hist, v):
    return {"sig": f"C16|{label}|{mode}|{v.split(':')[0]}|{hist!r}", "what": f"{v.split(':')[0]} in graph {label} ({mode}) after history {hist!r}",
            "detail": v, "case": ("hist", gi, mode, [list(h) for h in hist])}


def summarize(results, tier):
    tot = lambda k: sum(r.get(k, 0) for r in results)  # noqa
    samples = []
    for r in results:
        samples.extend(r.get("samples", []))
    return {
        "states": tot("states"),
        "transitions": tot("transitions"),
        "traces_validated_against_impl": tot("transitions"),
        "evaluations": tot("transitions"),
        "distinct_nontrivial": tot("nontrivial"),
        "switch_combinations": len(CACHE) * len(EFFECTS) * len(LOGGING) + len(EFFECTS) + len(TEMPLATED_ACTIONS),
        "samples": samples[:6],
        "exhaustive": True,
    }

RULE += ' Session 4: both nestings of the cache and logging context managers; option spellings with the value given as a reference to another option (true and false).'
