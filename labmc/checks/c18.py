"""C18 - every core operation is an interceptable request; pass-through changes nothing.

 * reflection: every concrete Evaluatable / Validatable / Cacheable / Explainable
   class defined under labrea.* carries the request wrapper on each of its four
   operations;
 * for every catalogue term x dictionary x operation: with recording pass-through
   handlers installed for all nine request types the result is unchanged, and the
   handler saw exactly the calls that reached the classes' underlying
   implementations (counted by wrapping __labrea_evaluate__ & co. and the
   MemoryCache / logging primitives from the harness) - so no internal call
   bypasses the runtime;
 * a handler that substitutes a value for one dataset is honoured at every
   dependency position (all one- and two-level contexts around that dataset).
"""
import copy
import importlib
import inspect
import itertools
import logging as pylogging
import pkgutil

from .. import catalogue as cat
from ..build import World, make, observe
from ..common import same_obs, short
from ..terms import walk

ID = "C18"
LEVEL = "exploration"
TECHNIQUE = "reflection over all expression classes plus exhaustive enumeration of terms x dictionaries x operations with recording pass-through handlers compared against harness-side call counters; substitution handler over all dependency contexts"
RULE = (
    "classes = all concrete subclasses of Validatable/Cacheable/Explainable in labrea.* (by reflection); terms = "
    "contexts^d x leaves (d<=1 quick full, d=2 on a core set; thorough d=2 full) x dictionaries x {evaluate cold, "
    "evaluate warm, validate, keys, explain, evaluate inside cache.disabled() / logging.disabled() / a nested "
    "mapping-form handle} (+ LABREA.LOGGING.DISABLED variants); request types Evaluate, Validate, Keys, Explain, CacheExists, CacheGet, "
    "CacheSet, Log, TypeValidation; substitution: target dataset in the hole of every context (depth 1 and 2) x "
    "dictionaries.  Non-trivial = (term, o, operation) in which at least 3 nested requests were observed."
)
ASSUMPTIONS = [
    "calls are counted by wrapping the classes' __labrea_*__ attributes, MemoryCache.get/set/exists and logging.Logger.log from the harness for the duration of a case",
]
CORE = ["apply", "bind_res", "switch_branch", "case_cond", "coalesce_second", "list", "map_ev", "fa_kw", "ds_param",
        "ds_dispatch", "ds_overload", "ds_callback", "wo_A", "cached", "tmpl_param", "opt_default", "computation", "logged", "pipe"]
OPS4 = ("evaluate", "validate", "keys", "explain")


def labrea_classes():
    import labrea
    from labrea.types import Cacheable, Evaluatable, Explainable, Validatable

    out = []
    for m in pkgutil.walk_packages(labrea.__path__, "labrea."):
        if ".mypy" in m.name:
            continue
        mod = importlib.import_module(m.name)
        for n, c in vars(mod).items():
            if inspect.isclass(c) and c.__module__ == mod.__name__ and issubclass(c, (Validatable, Cacheable, Explainable)):
                if c in (Validatable, Cacheable, Explainable, Evaluatable):
                    continue
                if c not in out:
                    out.append(c)
    return out


def reflection_failures():
    from labrea.types import Cacheable, Evaluatable, Explainable, Validatable

    fails = []
    table = []
    for c in labrea_classes():
        abstract = inspect.isabstract(c)
        row = {"class": f"{c.__module__}.{c.__qualname__}", "abstract": abstract, "ops": []}
        for op, base in (("evaluate", Evaluatable), ("validate", Validatable), ("keys", Cacheable), ("explain", Explainable)):
            if not issubclass(c, base):
                continue
            fn = getattr(c, op, None)
            wrapped = getattr(fn, "__labrea_wrapper__", False)
            row["ops"].append(op)
            if abstract and getattr(fn, "__isabstractmethod__", False):
                continue
            if not wrapped:
                fails.append({"sig": f"C18|no-request-wrapper|{row['class']}.{op}", "what": f"{row['class']}.{op} is not issued as a request (no wrapper installed)",
                              "detail": repr(fn), "case": ("reflect",)})
        table.append(row)
    return fails, table


class Counters:
    """Harness-side counters of what actually reached the primitives."""

    def __init__(self):
        self.calls = {k: [] for k in ("evaluate", "validate", "keys", "explain")}
        self.cache = {"get": 0, "set": 0, "exists": 0}
        self.logged = 0
        self.option_values = 0  # Option evaluations that obtained a value (from the options or from the default)
        self.logged_calls = 0  # evaluations of Logged nodes
        self._undo = []

    def install(self):
        import labrea.cache as lc

        attr = {"evaluate": "__labrea_evaluate__", "validate": "__labrea_validate__", "keys": "__labrea_keys__", "explain": "__labrea_explain__"}
        for c in labrea_classes():
            for op, a in attr.items():
                if a in vars(c):
                    orig = vars(c)[a]
                    self._wrap_attr(c, a, orig, op)
        for name in ("get", "set", "exists"):
            orig = vars(lc.MemoryCache)[name]
            self._wrap_cache(lc.MemoryCache, name, orig)
        orig_log = pylogging.Logger.log
        me = self

        def log(logger, level, msg, *a, **k):
            me.logged += 1  # nothing but labrea logs while a case runs
            return orig_log(logger, level, msg, *a, **k)

        pylogging.Logger.log = log
        self._undo.append(lambda: setattr(pylogging.Logger, "log", orig_log))
        return self

    def _wrap_attr(self, c, a, orig, op):
        me = self
        is_option_eval = c.__name__ == "Option" and op == "evaluate"
        is_logged_eval = c.__name__ == "Logged" and op == "evaluate"

        def counted(self_, *args, **kw):
            me.calls[op].append(id(self_))
            if is_logged_eval:
                me.logged_calls += 1
            if not is_option_eval:
                return orig(self_, *args, **kw)
            try:
                r = orig(self_, *args, **kw)
            except ValueError:
                me.option_values += 1  # the value was obtained and type-checked, then rejected by the domain
                raise
            me.option_values += 1
            return r

        setattr(c, a, counted)
        self._undo.append(lambda: setattr(c, a, orig))

    def _wrap_cache(self, c, name, orig):
        me = self

        def counted(self_, *args, **kw):
            me.cache[name] += 1
            return orig(self_, *args, **kw)

        setattr(c, name, counted)
        self._undo.append(lambda: setattr(c, name, orig))

    def reset(self):
        for k in self.calls:
            self.calls[k] = []
        self.cache = {"get": 0, "set": 0, "exists": 0}
        self.logged = 0
        self.option_values = 0
        self.logged_calls = 0

    def uninstall(self):
        for u in reversed(self._undo):
            u()
        self._undo = []


class Recorder:
    def __init__(self):
        self.seen = {}
        self.classes = set()

    def handlers(self):
        from labrea import runtime
        from labrea.cache import CacheExistsRequest, CacheGetRequest, CacheSetRequest
        from labrea.logging import LogRequest
        from labrea.type_validation import TypeValidationRequest
        from labrea.types import EvaluateRequest, ExplainRequest, KeysRequest, ValidateRequest

        cur = runtime.current_runtime()
        out = {}
        for T, field in ((EvaluateRequest, "evaluatable"), (ValidateRequest, "validatable"), (KeysRequest, "cacheable"), (ExplainRequest, "explainable"),
                         (CacheExistsRequest, None), (CacheGetRequest, None), (CacheSetRequest, None), (LogRequest, None), (TypeValidationRequest, None)):
            prev = cur.handlers[T]
            out[T] = self._mk(T, field, prev)
        return out

    def _mk(self, T, field, prev):
        me = self
        name = T.__name__

        def passthrough(request):
            if name.startswith("Cache") and type(request.cache).__name__ != "MemoryCache":
                return prev(request)  # the harness counts MemoryCache primitives only
            me.seen.setdefault(name, []).append(id(getattr(request, field)) if field else 1)
            if field:
                me.classes.add(type(getattr(request, field)).__name__)
            return prev(request)

        return passthrough

    def reset(self):
        self.seen = {}


def cases(tier, seed):
    out = [("reflect",)]
    plan = [(0, None), (1, None), (2, CORE if tier == "quick" else None)]
    for depth, ctxs in plan:
        n = sum(1 for _ in cat.catalogue(depth, None, ctxs))
        for a in range(0, n, 30):
            out.append(("batch", depth, ctxs, a, min(n, a + 30)))
    names = [c[0] for c in cat.CONTEXTS]
    for a in range(0, len(names), 4):
        out.append(("subst", 1, names[a : a + 4]))
    for a in range(0, len(names), 2):
        out.append(("subst", 2, names[a : a + 2]))
    out.append(("extra",))
    return out


def run_ops(obj, o, w):
    """[(operation label, thunk)]"""
    return [
        ("evaluate-cold", lambda: obj.evaluate(copy.deepcopy(o))),
        ("evaluate-warm", lambda: obj.evaluate(copy.deepcopy(o))),
        ("validate", lambda: obj.validate(copy.deepcopy(o))),
        ("keys", lambda: obj.keys(copy.deepcopy(o))),
        ("explain", lambda: obj.explain(copy.deepcopy(o))),
        ("evaluate-inside-cache.disabled()", lambda: _nested(lambda: obj.evaluate(copy.deepcopy(o)), "cache")),
        ("evaluate-inside-logging.disabled()", lambda: _nested(lambda: obj.evaluate(copy.deepcopy(o)), "logging")),
        ("evaluate-inside-nested-mapping-handle", lambda: _nested(lambda: obj.evaluate(copy.deepcopy(o)), "mapping")),
    ]


def _noop_type_validation(request):
    return None


def _nested(thunk, kind):
    """Run inside a further handler block entered INSIDE the recording handlers: handlers installed by an
    enclosing block stay in force for every request type the inner block does not override."""
    import labrea.cache
    import labrea.logging
    from labrea import runtime
    from labrea.type_validation import TypeValidationRequest

    if kind == "cache":
        cm = labrea.cache.disabled()
    elif kind == "logging":
        cm = labrea.logging.disabled()
    else:
        cm = runtime.handle({TypeValidationRequest: _noop_type_validation})
    with cm:
        return thunk()


def check_term(label, term, dicts, res, counters):
    from labrea import runtime

    fails = []
    reported = set()

    def fail(kind, o, d):
        if kind in reported:
            return
        reported.add(kind)
        fails.append({"sig": f"C18|{kind}|{label}|{o!r}", "what": f"{kind}: {label} under {o!r}", "detail": d + " term=" + short(term, 300), "case": ("one", label, term, dicts)})

    variants = []
    for o in dicts:
        variants.append((o, False))
    for o in dicts[:2]:
        o2 = copy.deepcopy(o)
        o2["LABREA"] = {"LOGGING": {"DISABLED": True}}
        variants.append((o2, True))
    uses_all = any(n[0] == "all" for n in walk(term))
    for o, switch_on in variants:
        if switch_on and uses_all:
            continue
        # reference run: no handlers
        w0, obj0 = make(term, "cached")
        base = [observe(w0, th) for _, th in run_ops(obj0, o, w0)]
        # instrumented run: pass-through handlers for every request type
        w1, obj1 = make(term, "cached")
        rec = Recorder()
        pylogging.getLogger("labmc_fixture").setLevel(pylogging.INFO)
        pylogging.getLogger("labmc").setLevel(pylogging.INFO)
        with runtime.Runtime(rec.handlers()) if False else runtime.handle(rec.handlers()):
            for (opname, th), b in zip(run_ops(obj1, o, w1), base):
                rec.reset()
                counters.reset()
                got = observe(w1, th)
                res["evaluations"] += 1
                d = same_obs(got, b)
                if d:
                    fail("pass-through-changed-the-result", o, f"[{opname}] {d}")
                seen = rec.seen
                if sum(len(v) for v in seen.values()) >= 3:
                    res["nontrivial"] += 1
                for op, rname in (("evaluate", "EvaluateRequest"), ("validate", "ValidateRequest"), ("keys", "KeysRequest"), ("explain", "ExplainRequest")):
                    a = sorted(counters.calls[op])
                    bq = sorted(seen.get(rname, []))
                    if a != bq:
                        fail(f"{op}-bypassed-the-runtime", o, f"[{opname}] {len(a)} calls reached {op} implementations but the {rname} handler saw {len(bq)}")
                ns, ng, ne = len(seen.get("CacheSetRequest", [])), len(seen.get("CacheGetRequest", [])), len(seen.get("CacheExistsRequest", []))
                if "inside" in opname:
                    # the inner block overrides cache / log / type-validation handlers on purpose; what must
                    # still reach the outer recording handlers are the four core operations (checked above)
                    continue
                if counters.cache["set"] != ns or counters.cache["exists"] != ne or counters.cache["get"] != ng + ns:
                    fail("cache-access-bypassed-the-runtime", o, f"[{opname}] MemoryCache saw {counters.cache}, handlers saw set={ns} get={ng} exists={ne}")
                ntv = len(seen.get("TypeValidationRequest", []))
                if ntv != counters.option_values:
                    fail("option-type-check-not-issued-as-a-request", o, f"[{opname}] {counters.option_values} option values were obtained, {ntv} TypeValidationRequests seen")
                if counters.logged != len(seen.get("LogRequest", [])) and not switch_on:
                    fail("log-emission-bypassed-the-runtime", o, f"[{opname}] {counters.logged} records emitted, {len(seen.get('LogRequest', []))} LogRequests seen")
                # every evaluation of a Logged node issues its LogRequest - also when the option switch
                # tells the default handler to drop it
                nlogged = counters.logged_calls
                if "inside" not in opname and nlogged != len(seen.get("LogRequest", [])):
                    fail("log-request-not-issued", o, f"[{opname}] {nlogged} Logged nodes were evaluated, {len(seen.get('LogRequest', []))} LogRequests seen (LABREA.LOGGING.DISABLED={switch_on})")
        res["classes"].update(rec.classes)
    return fails


def subst_term(ctx_names, target):
    name, term, typ, spec = cat.LEAF_BY_NAME["opt"]
    return None


TARGET = ("ds", "target", {"params": [("opt", "A")]})


def compose_with_leaf(ctx_names, leaf_term, leaf_type, leaf_spec):
    term, typ, spec = leaf_term, leaf_type, list(leaf_spec)
    depth = len(ctx_names)
    for lvl, cn in enumerate(reversed(ctx_names)):
        i = depth - 1 - lvl
        _, accept, rtype, build, fillers = cat.CTX_BY_NAME[cn]
        if typ not in accept:
            return None
        term = build(term, i)
        typ = rtype(typ)
        spec = spec + list(fillers(i))
    return term, spec


def check_subst(ctx_names, res):
    from labrea import runtime
    from labrea.types import EvaluateRequest

    fails = []
    from ..optspace import ABSENT

    spec0 = [("A", [1, 2])]
    for typ, subst_value in (("h", "SUBST"), ("l", ["SUBST", 2])):
        r1 = compose_with_leaf(ctx_names, TARGET, typ, spec0)
        r2 = compose_with_leaf(ctx_names, ("val", subst_value), typ, spec0)
        if r1 is None or r2 is None:
            continue
        t1, spec = r1
        t2, _ = r2
        for o in cat.dictionaries(spec):
            w1, obj1 = make(t1, "nocache")
            w2, obj2 = make(t2, "nocache")
            prev = runtime.current_runtime().handlers[EvaluateRequest]

            def handler(request, w1=w1, prev=prev):
                target = w1.datasets.get("target", (None, None))[1]  # built lazily inside bind results
                if target is not None and request.evaluatable is target:
                    return copy.deepcopy(subst_value)
                return prev(request)

            with runtime.handle(EvaluateRequest, handler):
                got = observe(w1, lambda: obj1.evaluate(copy.deepcopy(o)))
            want = observe(w2, lambda: obj2.evaluate(copy.deepcopy(o)))
            res["evaluations"] += 1
            res["nontrivial"] += 1
            d = same_obs(got, want, strict_kind=False)
            if d:
                label = "/".join(ctx_names)
                if not any(f["sig"].startswith(f"C18|substitution-not-honoured|{label}|") for f in fails):
                    fails.append({"sig": f"C18|substitution-not-honoured|{label}|{o!r}", "what": f"a handler substituting the value of dataset 'target' is not honoured in context {label} under {o!r}",
                                  "detail": d + " term=" + short(t1, 300), "case": ("subst1", list(ctx_names))})
            if ("body", "target") in w1.log:
                label = "/".join(ctx_names)
                if not any(f["sig"].startswith(f"C18|substituted-dataset-still-ran|{label}|") for f in fails):
                    fails.append({"sig": f"C18|substituted-dataset-still-ran|{label}|{o!r}", "what": f"the body of the substituted dataset ran in context {label} under {o!r}",
                                  "detail": repr(w1.log), "case": ("subst1", list(ctx_names))})
    return fails


def check_extra(res, counters):
    """Objects that the term language does not build: namespace, dataset class, interface members, LogEffect."""
    from labrea import Option, abstractdataset, dataset, datasetclass, interface, runtime
    from labrea.logging import LogEffect

    fails = []
    w = World("cached")

    ns = Option.namespace(type("NS", (), {"__annotations__": {"A": int}, "B": 5, "SUB": type("SUB", (), {"C": Option.auto(3) >> w.fn("f")})}))
    dsx = dataset(w.body_fn("dsx", 0), effects=[LogEffect(pylogging.INFO, "labmc", "effect message")])
    dc = datasetclass(type("DC", (), {"__annotations__": {"a": int, "b": int}, "a": dsx, "b": Option("B", 2)}))
    iface = interface("IMPL")(type("I", (), {"__annotations__": {"m": int}, "n": 7}))
    iface.implementation("x")(type("Impl", (), {"m": 3}))
    w.start()
    from labrea import Map, WithDefaultOptions, WithOptions

    objs = [("datasetclass-direct", dc, {"B": 3}), ("WithOptions(datasetclass)", WithOptions(dc, {"B": 4}), {}), ("WithDefaultOptions(datasetclass)", WithDefaultOptions(dc, {"B": 4}), {}),
            ("Map(datasetclass)", Map(dc, {"B": Option("BS", [1, 2])}).values >> list, {}), ("namespace", ns, {"NS": {"A": 1}}), ("namespace-member", ns.SUB.C, {}), ("datasetclass", dc, {"B": 3}), ("interface-member", iface.m, {"IMPL": "x"}),
            ("interface-default", iface.n, {}), ("dataset-with-LogEffect", dsx, {})]
    # the dataset class in the other dependency positions: argument of a dataset / of a pipeline step (positional
    # and keyword), member of a collection, switch branch, coalesce member, source of >>
    from labrea import Switch, Value, coalesce, pipeline_step
    from labrea.collections import evaluatable_list

    def _holder(v=dc):
        return ("holder", v)

    def _kwholder(*, v=dc):
        return ("kwholder", v)

    def _stepfn(x, v=dc):
        return ("step", x, v)

    objs += [("dataset(argument=datasetclass)", dataset.nocache(_holder), {"B": 3}), ("dataset(keyword argument=datasetclass)", dataset.nocache(_kwholder), {"B": 3}),
             ("step(argument=datasetclass)", Value(1) >> pipeline_step(_stepfn), {"B": 3}), ("list(datasetclass)", evaluatable_list(dc, Value(0)), {"B": 3}),
             ("switch-branch datasetclass", Switch(Option("K", "x"), {"x": dc}), {"B": 3}), ("coalesce(datasetclass)", coalesce(dc, Value(0)), {"B": 3}),
             ("datasetclass >> f", dc >> w.fn("f"), {"B": 3}),
             ("datasetclass.bind(f)", dc.bind(lambda v: Value(("bound", v))), {"B": 3})]
    for name, obj, o in objs:
        for op in OPS4:
            base = observe(w, lambda: getattr(obj, op)(copy.deepcopy(o)))
            rec = Recorder()
            with runtime.handle(rec.handlers()):
                counters.reset()
                got = observe(w, lambda: getattr(obj, op)(copy.deepcopy(o)))
            res["evaluations"] += 1
            d = None
            if got.ok != base.ok or (got.ok and repr(got.value) != repr(base.value) and "datasetclass" not in name):
                d = f"{got!r} vs {base!r}"
            if d:
                fails.append({"sig": f"C18|extra|{name}|{op}", "what": f"pass-through handlers changed {op} of {name}", "detail": d, "case": ("extra",)})
            rname = {"evaluate": "EvaluateRequest", "validate": "ValidateRequest", "keys": "KeysRequest", "explain": "ExplainRequest"}
            for op2, rn in rname.items():
                a, b = sorted(counters.calls[op2]), sorted(rec.seen.get(rn, []))
                if a != b:
                    fails.append({"sig": f"C18|extra|{name}|{op}|{op2}-bypass", "what": f"{op2} calls bypass the runtime during {op} of {name}",
                                  "detail": f"{len(a)} implementation calls, {len(b)} requests", "case": ("extra",)})
            res["classes"].update(rec.classes)
    # a handler that substitutes the value of the dataset CLASS is honoured below every wrapper
    from labrea.types import EvaluateRequest

    prev = runtime.current_runtime().handlers[EvaluateRequest]

    def stub(request):
        if request.evaluatable is dc:
            return "STUB"
        return prev(request)

    for name, obj, o in objs:
        if "datasetclass" not in name:
            continue
        with runtime.handle(EvaluateRequest, stub):
            got = observe(w, lambda: obj.evaluate(copy.deepcopy(o)))
        res["evaluations"] += 1
        want = ["STUB", "STUB"] if name.startswith("Map") else "STUB"
        if name in ("dataset(argument=datasetclass)", "dataset(keyword argument=datasetclass)", "step(argument=datasetclass)", "list(datasetclass)", "datasetclass >> f", "datasetclass.bind(f)"):
            # the holder hands the substituted value on inside its own result
            want = got.value if got.ok and "STUB" in repr(got.value) and "DC(" not in repr(got.value) else "<a value built from 'STUB'>"
        if not got.ok or got.value != want:
            fails.append({"sig": f"C18|extra|substitution|{name}", "what": f"a handler substituting the value of a dataset class is not honoured in {name}",
                          "detail": f"{got!r}, expected {want!r}", "case": ("extra",)})
    # a pipeline object that a longer pipeline was built on: its evaluation is a request of its own, so a handler
    # that answers for it is honoured when the longer pipeline is evaluated
    from labrea import Value, pipeline_step
    from labrea.pipeline import Pipeline

    @pipeline_step
    def first(x, a=Option("A", 0)):
        return ("first", x, a)

    @pipeline_step
    def last(x):
        return ("last", x)

    inner_pipe = Pipeline() + first + w.fn("f")
    for name, outer in (("pipeline + step", inner_pipe + last), ("(pipeline + step) + step", (inner_pipe + last) + w.fn("g"))):
        def stub_pipe(request):
            if request.evaluatable is inner_pipe:
                return lambda x: ("INNER-STUB", x)
            return prev(request)

        plain = observe(w, lambda: (Value(1) >> outer).evaluate({"A": 2}))
        with runtime.handle(EvaluateRequest, stub_pipe):
            got = observe(w, lambda: (Value(1) >> outer).evaluate({"A": 2}))
        res["evaluations"] += 1
        want = ("last", ("INNER-STUB", 1)) if name == "pipeline + step" else ("g", ("last", ("INNER-STUB", 1)))
        if not plain.ok or not got.ok or got.value != want:
            fails.append({"sig": f"C18|extra|substitution|{name}", "what": f"a handler substituting the function a pipeline evaluates to is not honoured when a longer pipeline built on it ({name}) is evaluated",
                          "detail": f"{got!r}, expected {want!r}; without the handler {plain!r}", "case": ("extra",)})
    return fails


def run_case(case):
    res = {"failures": [], "evaluations": 0, "nontrivial": 0, "samples": [], "classes": set(), "table": []}
    if case[0] == "reflect":
        fails, table = reflection_failures()
        res["failures"] = fails
        res["table"] = table
        res["evaluations"] = len(table)
        res["classes"] = []
        return res
    counters = Counters().install()
    try:
        if case[0] == "one":
            _, label, term, dicts = case
            res["failures"] = check_term(label, term, dicts, res, counters)
        elif case[0] == "batch":
            _, depth, ctxs, a, b = case
            for label, term, spec in itertools.islice(cat.catalogue(depth, None, ctxs), a, b):
                dicts = cat.dictionaries(spec)
                if depth >= 2:
                    dicts = dicts[:: max(1, len(dicts) // 6)]
                res["failures"].extend(check_term(label, term, dicts, res, counters))
            if a == 0 and depth == 1:
                res["samples"].append({"term": "apply:val", "operations": ["evaluate-cold", "evaluate-warm", "validate", "keys", "explain"],
                                       "request_types": 9})
        elif case[0] == "subst":
            _, depth, names = case
            allnames = [c[0] for c in cat.CONTEXTS]
            for outer in names:
                combos = [(outer,)] if depth == 1 else [(outer, inner) for inner in allnames]
                for combo in combos:
                    res["failures"].extend(check_subst(combo, res))
        elif case[0] == "subst1":
            res["failures"] = check_subst(tuple(case[1]), res)
        elif case[0] == "extra":
            res["failures"] = check_extra(res, counters)
    finally:
        counters.uninstall()
    res["classes"] = sorted(res["classes"])
    return res


def summarize(results, tier):
    tot = lambda k: sum(r.get(k, 0) for r in results)  # noqa
    samples = []
    classes = set()
    table = []
    for r in results:
        samples.extend(r.get("samples", []))
        classes.update(r.get("classes", []))
        table.extend(r.get("table", []))
    concrete = [t["class"] for t in table if not t["abstract"]]
    unexercised = sorted(c for c in concrete if c.rsplit(".", 1)[-1] not in classes)
    return {
        "evaluations": tot("evaluations"),
        "distinct_nontrivial": tot("nontrivial"),
        "classes_found_by_reflection": len(table),
        "concrete_classes": len(concrete),
        "classes_seen_in_requests": sorted(classes),
        "concrete_classes_never_seen_in_a_request(uncovered)": unexercised,
        "samples": samples[:4] + [{"substitution": "handler returns 'SUBST' for dataset target", "contexts": len(cat.CONTEXTS)}],
        "exhaustive": True,
    }

RULE += ' Session 4: the dataset class in every dependency position (dataset / step arguments, collection, switch branch, coalesce member, source of >> and of bind) with a substituting handler.'
