"""C20 - datasets survive a pickle round trip with identical behaviour.

Exhaustive over a fixture module of module-level datasets (explicit and
decorator form x 10 configurations) x pickle protocols 0..5 x {same process,
freshly started interpreter} x dictionaries x post-load operations {evaluate,
keys, register + evaluate}; differential oracle against the original object.
"""
import copy
import importlib
import json
import os
import pickle
import shutil
import subprocess
import sys
import tempfile

from ..build import observe
from ..optspace import ABSENT, freeze, product_dicts

ID = "C20"
LEVEL = "exploration"
TECHNIQUE = "exhaustive enumeration of fixture datasets x pickle protocols x processes x dictionaries, differential against the original objects"
RULE = (
    "fixtures (labmc/fixtures/pickle_fix.py): explicit dataset(f) form {plain, dependency on another dataset, callback, "
    "effects, pre-set options, default options, with_options/with_default_options derivative, dispatch with overloads "
    "registered before pickling (register + list overload), abstract with an overload, nocache, self-referential overload graph, call-counting dataset} and decorator form "
    "{plain, dispatch, dependency}; protocols 0..5; round trip in-process and into a fresh interpreter (subprocess "
    "started per protocol); dictionaries = product A x B x D; after loading: evaluate, keys, then register / overload a "
    "new alias and evaluate it (dispatch-less datasets refuse like the original); cold round trips (a fresh interpreter pickles every fixture before anything was evaluated, observes the copy twice, then the original); originals observed before any "
    "pickling and re-checked after all round trips; the fresh interpreter runs with another hash seed and must "
    "serve stored values without running bodies.  Non-trivial = (dataset, protocol, process, dictionary) with a successful evaluation."
)
ASSUMPTIONS = ["fixture callables are importable module-level functions; the fresh interpreter imports the same fixture module from /verif"]
FIX = "labmc.fixtures.pickle_fix"
SPEC = [("A", [ABSENT, 1, 2]), ("B", [ABSENT, 3]), ("D", [ABSENT, "x", "y", "y2", "zz"])]


def dicts():
    return list(product_dicts(SPEC))


def outcome(thunk):
    o = observe(None, thunk)
    if o.ok:
        return ["ok", repr(freeze(o.value))]
    return ["fail", str(o.kind), str(o.key)]


def behaviour(ds, can_register):
    """Everything observable we compare: per dictionary evaluate + keys; then late registration."""
    from labrea import Value

    out = []
    for o in dicts():
        out.append([outcome(lambda: ds.evaluate(copy.deepcopy(o))), outcome(lambda: sorted(ds.keys(copy.deepcopy(o))))])
    late = []
    from ..fixtures import pickle_fix

    if can_register:
        late.append(outcome(lambda: ds.register("late", Value("late-impl"))))
        for o in ({"D": "late"}, {"D": "late", "A": 1}, {"D": "x", "B": 3}):
            late.append(outcome(lambda: ds.evaluate(copy.deepcopy(o))))
        late.append(outcome(lambda: bool(ds.overload("late2")(pickle_fix.late_impl))))
        late.append(outcome(lambda: ds.evaluate({"D": "late2"})))
        late.append(sorted(map(repr, ds.overloads.lookup)))
    else:
        # a dataset without a dispatch refuses overloads - before and after the round trip
        late.append(outcome(lambda: bool(ds.overload("late2")(pickle_fix.late_impl))))
        late.append(outcome(lambda: ds.evaluate({"A": 1, "D": "late2"})))
        late.append(outcome(lambda: ds.register("late3", Value("late-impl"))))
        late.append(outcome(lambda: ds.evaluate({"A": 1, "D": "late3"})))
    return {"per_dict": out, "late": late}


def cases(tier, seed):
    out = []
    for proto in range(0, pickle.HIGHEST_PROTOCOL + 1):
        out.append(("proto", proto))
    return out


def child_main(path):
    """Runs in the freshly started interpreter: load every blob, report behaviour as JSON."""
    with open(os.path.join(path, "index.json")) as f:
        index = json.load(f)
    res = {}
    from ..fixtures import pickle_fix

    for name, can_register in index:
        try:
            with open(os.path.join(path, name + ".pkl"), "rb") as f:
                ds = pickle.load(f)
            del pickle_fix.CALLS[:]
            res[name] = behaviour(ds, can_register)
            res[name]["body_calls"] = len(pickle_fix.CALLS)
        except BaseException as e:  # noqa
            res[name] = {"error": f"{type(e).__name__}: {e}"}
    print("RESULT " + json.dumps(res))


def cold_main(proto):
    """Runs in a freshly started interpreter: every fixture is pickled BEFORE anything was evaluated (all
    caches still empty), loaded back, and the copy is observed first; the original is observed afterwards."""
    mod = importlib.import_module(FIX)
    out = {}
    for name in mod.EXPLICIT:
        ds = getattr(mod, name)
        try:
            loaded = pickle.loads(pickle.dumps(ds, protocol=proto))
        except BaseException as e:  # noqa
            out[name] = {"error": f"{type(e).__name__}: {e}"}
            continue
        got = [[outcome(lambda: loaded.evaluate(copy.deepcopy(o))), outcome(lambda: sorted(loaded.keys(copy.deepcopy(o))))] for o in dicts()]
        again = [[outcome(lambda: loaded.evaluate(copy.deepcopy(o))), outcome(lambda: sorted(loaded.keys(copy.deepcopy(o))))] for o in dicts()]
        want = [[outcome(lambda: ds.evaluate(copy.deepcopy(o))), outcome(lambda: sorted(ds.keys(copy.deepcopy(o))))] for o in dicts()]
        out[name] = {"got": got, "again": again, "want": want}
    print("RESULT " + json.dumps(out))


def run_case(case):
    res = {"failures": [], "evaluations": 0, "nontrivial": 0, "samples": [], "decorator_form_unpicklable": 0}
    _, proto = case
    mod = importlib.import_module(FIX)
    # cold round trips: a fresh interpreter pickles every fixture before anything was evaluated
    env0 = dict(os.environ)
    env0["LABMC_PINNED"] = "1"
    root0 = os.path.dirname(os.path.dirname(os.path.dirname(os.path.abspath(__file__))))
    p0 = subprocess.run([sys.executable, "-B", "-m", "labmc.checks.c20", "--cold", str(proto)], cwd=root0, env=env0, capture_output=True, text=True, timeout=300)
    line0 = [l for l in p0.stdout.splitlines() if l.startswith("RESULT ")]
    if p0.returncode != 0 or not line0:
        res["failures"].append({"sig": f"C20|cold-interpreter-crashed|protocol={proto}", "what": f"cold round trip: the interpreter crashed with pickle protocol {proto}", "detail": (p0.stdout + p0.stderr)[-600:], "case": ("proto", proto)})
    else:
        for name, r in json.loads(line0[0][7:]).items():
            res["evaluations"] += 2 * len(dicts())
            if "error" in r:
                kind, d = "cold-round-trip-failed", r["error"]
            elif r["got"] != r["want"]:
                kind, d = "cold-round-trip-changed-behaviour", _diff(r["want"], r["got"])
            elif r["again"] != r["want"]:
                kind, d = "cold-round-trip-changed-behaviour-on-repeat", _diff(r["want"], r["again"])
            else:
                continue
            res["failures"].append({"sig": f"C20|{kind}|{name}|protocol={proto}", "what": f"{kind}: fixture dataset {name} pickled before anything was evaluated, protocol {proto}", "detail": d, "case": ("proto", proto)})

    def fail(kind, name, d):
        res["failures"].append({"sig": f"C20|{kind}|{name}|protocol={proto}", "what": f"{kind}: fixture dataset {name} with pickle protocol {proto}", "detail": d, "case": ("proto", proto)})

    def plain_behaviour(ds):
        return [[outcome(lambda: ds.evaluate(copy.deepcopy(o))), outcome(lambda: sorted(ds.keys(copy.deepcopy(o))))] for o in dicts()]

    # every original is observed BEFORE anything is pickled in this process: a round trip of one
    # dataset must not change the behaviour of any other object either
    baseline = {name: plain_behaviour(getattr(mod, name)) for name in mod.EXPLICIT + mod.DECORATOR}
    tmp = tempfile.mkdtemp(prefix="labmc-c20-")
    try:
        index = []
        expected = {}
        for name in mod.EXPLICIT + mod.DECORATOR:
            ds = getattr(mod, name)
            can_register = ds.overloads.dispatch is not None and "MISSING" not in repr(ds.overloads.dispatch)
            try:
                blob = pickle.dumps(ds, protocol=proto)
            except Exception as e:  # noqa
                if name in mod.DECORATOR:
                    res["decorator_form_unpicklable"] += 1
                    res["failures"].append({"sig": "C20|decorator-form-not-picklable", "what": "decorator-form datasets cannot be pickled",
                                            "detail": f"{name} protocol {proto}: {type(e).__name__}: {e}", "case": ("proto", proto)})
                else:
                    fail("dumps-failed", name, f"{type(e).__name__}: {e}")
                continue
            # in-process round trip
            try:
                loaded = pickle.loads(blob)
            except Exception as e:  # noqa
                fail("loads-failed", name, f"{type(e).__name__}: {e}")
                continue
            # the original's behaviour is taken from a second, independent copy so that the late
            # registration performed on it does not touch the module-level fixture
            reference = pickle.loads(pickle.dumps(ds, protocol=pickle.HIGHEST_PROTOCOL))
            orig_plain = baseline[name]
            now = plain_behaviour(ds)
            if now != orig_plain:
                fail("an-earlier-round-trip-changed-this-original", name, _diff(orig_plain, now))
            want = behaviour(reference, can_register)
            if not can_register:
                # refusing overloads does not modify the dataset, so the ORIGINAL can be asked directly
                want_orig = behaviour(ds, can_register)
                if want_orig["late"] != want["late"]:
                    fail("round-trip-changed-overload-refusal", name, f"original {want_orig['late']} vs copy {want['late']}")
                want = want_orig
            if want["per_dict"] != orig_plain:
                fail("round-trip-changed-behaviour", name, _diff(orig_plain, want["per_dict"]))
            got = behaviour(loaded, can_register)
            res["evaluations"] += len(got["per_dict"])
            res["nontrivial"] += sum(1 for e, k in got["per_dict"] if e[0] == "ok")
            if got["per_dict"] != orig_plain:
                fail("in-process-round-trip-changed-behaviour", name, _diff(orig_plain, got["per_dict"]))
            if got["late"] != want["late"]:
                fail("in-process-late-registration-differs", name, f"{got['late']} vs {want['late']}")
            if can_register and (not got["late"] or got["late"][0][0] != "ok" or got["late"][1] not in (["ok", repr(freeze(("cb", "late-impl")))], ["ok", repr(freeze("late-impl"))])):
                fail("unpickled-dataset-not-usable-for-registration", name, repr(got["late"]))
            # the original was not affected by what we did to the copies
            again = [[outcome(lambda: ds.evaluate(copy.deepcopy(o))), outcome(lambda: sorted(ds.keys(copy.deepcopy(o))))] for o in dicts()]
            if again != orig_plain or "'late'" in repr(sorted(map(repr, ds.overloads.lookup))):
                fail("original-affected-by-the-copy", name, "registration on the unpickled copy leaked into the original")
            expected[name] = {"per_dict": orig_plain, "late": want["late"]}
            with open(os.path.join(tmp, name + ".pkl"), "wb") as f:
                f.write(blob)
            index.append([name, can_register])
        for name in mod.EXPLICIT:
            now = plain_behaviour(getattr(mod, name))
            if now != baseline[name]:
                fail("round-trips-changed-an-original", name, _diff(baseline[name], now))
        with open(os.path.join(tmp, "index.json"), "w") as f:
            json.dump(index, f)
        # fresh interpreter
        env = dict(os.environ)
        env["LABMC_PINNED"] = "1"
        env["PYTHONHASHSEED"] = str(1 + proto)  # the receiving interpreter has its own hash seed
        root = os.path.dirname(os.path.dirname(os.path.dirname(os.path.abspath(__file__))))
        p = subprocess.run([sys.executable, "-B", "-m", "labmc.checks.c20", tmp], cwd=root, env=env, capture_output=True, text=True, timeout=300)
        line = [l for l in p.stdout.splitlines() if l.startswith("RESULT ")]
        if p.returncode != 0 or not line:
            fail("fresh-interpreter-crashed", "*", (p.stdout + p.stderr)[-600:])
        else:
            child = json.loads(line[0][7:])
            for name, exp in expected.items():
                got = child.get(name)
                res["evaluations"] += len(exp["per_dict"])
                if got is None or "error" in got:
                    fail("fresh-interpreter-load-failed", name, repr(got))
                    continue
                if got["per_dict"] != exp["per_dict"]:
                    fail("fresh-interpreter-behaviour-differs", name, _diff(exp["per_dict"], got["per_dict"]))
                if got["late"] != exp["late"]:
                    fail("fresh-interpreter-late-registration-differs", name, f"{got['late']} vs {exp['late']}")
                if name == "counted" and got.get("body_calls", 0) != 0:
                    fail("stored-values-lost-in-the-fresh-interpreter", name, f"every dictionary was evaluated before pickling, yet the body ran {got['body_calls']}x after loading in a fresh interpreter")
                res["nontrivial"] += sum(1 for e, k in got["per_dict"] if e[0] == "ok")
    finally:
        shutil.rmtree(tmp, ignore_errors=True)
    # de-duplicate the known-finding entry
    seen = set()
    uniq = []
    for f in res["failures"]:
        if f["sig"] in seen:
            continue
        seen.add(f["sig"])
        uniq.append(f)
    res["failures"] = uniq
    if proto == 2:
        res["samples"].append({"protocol": proto, "datasets": mod.EXPLICIT, "dictionaries": len(dicts()), "example": dicts()[-1]})
    return res


def _diff(a, b):
    ds = dicts()
    for o, x, y in zip(ds, a, b):
        if x != y:
            return f"under {o!r}: {x} vs {y}"
    return "lengths differ"


def summarize(results, tier):
    tot = lambda k: sum(r.get(k, 0) for r in results)  # noqa
    samples = []
    for r in results:
        samples.extend(r.get("samples", []))
    return {
        "evaluations": tot("evaluations"),
        "distinct_nontrivial": tot("nontrivial"),
        "protocols": pickle.HIGHEST_PROTOCOL + 1,
        "decorator_form_dumps_that_raised(known finding)": tot("decorator_form_unpicklable"),
        "samples": samples[:3],
        "exhaustive": True,
    }


if __name__ == "__main__":
    from .. import runner

    runner.pin_environment(os.environ.get("PYTHONHASHSEED", "0"), module="labmc.checks.c20")
    if sys.argv[1] == "--cold":
        cold_main(int(sys.argv[2]))
    else:
        child_main(sys.argv[1])
