"""C07 - overload and interface dispatch select exactly the registered implementation.

 * explicit-state search over histories of register / overload (list and
   stacked) / set_dispatch / evaluate on one real dataset, against a table
   model with an "already stored" exemption;
 * exhaustive enumeration of interface shapes x implementation subsets x alias
   forms (acceptance, atomic rejection, same alias for every member).
"""
import copy
import itertools

from ..build import observe
from ..optspace import freeze

ID = "C07"
LEVEL = "model_checking"
TECHNIQUE = "explicit-state BFS over (overload table, dispatch, cache, memo) reached by replaying operation histories on the real Dataset; exhaustive interface/implementation enumeration"
RULE = (
    "dataset variants {concrete, abstract} x dispatch {key string, Option with default, dataset} with a callback; "
    "operations: register a/b with constant / Option / dataset implementations, re-register, overload(['a','b']), overload(<one alias: a tuple under a dataset dispatch>), "
    "stacked overload, set_dispatch(Option('D','a')), evaluate over D in {absent,a,b,zz} x X in {1,2}; BFS with "
    "state dedup to depth 4 quick / 5 thorough; interfaces: all shapes with <=3 members over 6 member kinds x all "
    "override subsets (+ unknown member) x 4 override forms rotated x alias forms; two-interface implementations: all pairs of shapes with <=2 members x all "
    "override subsets; members declared with a dispatch of their own; Overloaded objects built from one dictionary.  Non-trivial = evaluations after at least one registration / accepted or rejected implementations."
)
ASSUMPTIONS = [
    "an evaluation may return the value stored by an earlier successful evaluation of the same dispatch value and (if the stored implementation reads it) the same payload: the property exempts 'already stored'",
]

# -------------------------------------------------------------------------
# part 1: overload histories


def cbf(v):
    return ("cb", v)


class Sys1:
    def __init__(self, variant):
        from labrea import Option, abstractdataset, dataset

        self.variant = variant
        abstract, dkind = variant
        self.log = []

        def body(x=Option("X", 0)):
            self.log.append("body")
            return ("body", x)

        def dispbody(d=Option("D", "none")):
            return ("disp", d)

        def dispbody_nd(d=Option("D")):
            return ("disp", d)

        # "dataset_nd": the dispatch is a dataset that cannot be evaluated when D is absent (no default): the
        # dispatch value "cannot be determined" for a reason that is not this dataset's own missing key
        self.dispds = dataset(dispbody_nd if dkind == "dataset_nd" else dispbody)
        if dkind == "key":
            disp = "D"
        elif dkind == "optdef":
            disp = Option("D", "a")
        else:
            disp = self.dispds
        factory = abstractdataset if abstract else dataset
        self.d = factory(body, dispatch=disp, callback=cbf)
        self.dkind = dkind
        # model
        self.table = {}
        self.default_alias = "a" if dkind == "optdef" else None
        self.memo = []  # (D value or '<absent>', X value or None, value)
        self.abstract = abstract
        self.impls = self._impls()

    def alias(self, a):
        return ("disp", a) if self.dkind in ("dataset", "dataset_nd") else a

    def _impls(self):
        from labrea import Option, Value, dataset

        def dsbody(x=Option("X", 0)):
            return ("DS1", x)

        return {
            "V1": (Value("v1"), lambda x: "v1", False),
            "V2": (Value("v2"), lambda x: "v2", False),
            "OX": (Option("X", 0), lambda x: x, True),
            "DS1": (dataset(dsbody), lambda x: ("DS1", x), True),
        }

    def expected(self, o):
        d = o.get("D", "<absent>")
        x = o.get("X", 0)
        if d == "<absent>":
            key = self.default_alias if self.default_alias else ("none" if self.dkind == "dataset" else None)
        else:
            key = d
        if key is not None and key in self.table:
            name = self.table[key]
            fn, reads = self.model_impl(name)
            return ("ok", ("cb", fn(x)), reads)
        if self.abstract:
            return ("fail", None, False)
        return ("ok", ("cb", ("body", x)), True)

    def model_impl(self, name):
        if name == "F":
            return (lambda x: ("F", x)), True
        if name == "G":
            return (lambda x: ("G", x)), True
        if name == "H":
            return (lambda x: ("H", x)), True
        obj, fn, reads = self.impls[name]
        return fn, reads

    def op(self, o):
        from labrea import Option

        kind = o[0]
        if kind == "register":
            _, a, name = o
            self.d.register(self.alias(a), self.impls[name][0])
            self.table[a] = name
        elif kind == "overload_list":

            def F(x=Option("X", 0)):
                return ("F", x)

            self.d.overload([self.alias("a"), self.alias("b")])(F)
            self.table["a"] = "F"
            self.table["b"] = "F"
        elif kind == "overload_single":

            def H(x=Option("X", 0)):
                return ("H", x)

            # ONE alias (a tuple when the dispatch is a dataset): a hashable value, not a list of aliases
            self.d.overload(self.alias(o[1]))(H)
            self.table[o[1]] = "H"
        elif kind == "overload_stacked":

            def G(x=Option("X", 0)):
                return ("G", x)

            self.d.overload(self.alias("a"))(self.d.overload(self.alias("b"))(G))
            self.table["a"] = "G"
            self.table["b"] = "G"
        elif kind == "set_dispatch":
            if self.dkind != "key":
                return "n/a"
            self.d.set_dispatch(Option("D", "a"))
            self.dkind = "optdef"
            self.default_alias = "a"
        elif kind == "evaluate":
            opt = dict(o[1])
            got = observe(None, lambda: self.d.evaluate(copy.deepcopy(opt)))
            status, val, reads = self.expected(opt)
            d = opt.get("D", "<absent>")
            x = opt.get("X", 0)
            allowed = []
            if status == "ok":
                allowed.append(val)
            for (md, mx, mv) in self.memo:
                if md == d and (mx is None or mx == x):
                    allowed.append(mv)
            if got.ok:
                if not any(freeze(got.value) == freeze(a) for a in allowed):
                    return f"evaluate({opt}) returned {got.value!r}; table={self.table} dispatch={self.dkind} allowed={allowed}"
                self.memo.append((d, x if self._value_reads_x(got.value) else None, got.value))
            else:
                if status == "ok" and not [m for m in self.memo if m[0] == d]:
                    return f"evaluate({opt}) failed with {got!r}; expected {val!r}; table={self.table}"
                if status == "ok":
                    return f"evaluate({opt}) failed with {got!r}; expected {val!r} (or a stored value); table={self.table}"
        return None

    @staticmethod
    def _value_reads_x(v):
        return not (isinstance(v, tuple) and v[0] == "cb" and v[1] in ("v1", "v2"))

    def state(self):
        lookup = self.d.overloads.lookup
        inv = {}
        for name, (obj, fn, reads) in self.impls.items():
            inv[id(obj)] = name
        tbl = tuple(sorted((repr(k), inv.get(id(v), getattr(v, "__name__", type(v).__name__))) for k, v in lookup.items()))
        cache = tuple(sorted((k, repr(v)) for k, v in self.d.cache._cache.items()))
        return (tbl, self.dkind, cache, tuple(sorted(map(repr, self.memo))), tuple(sorted(self.table.items())))


DICTS = [{"X": x, **({"D": d} if d is not None else {})} for d in (None, "a", "b", "zz") for x in (1, 2)]
OPS = (
    [("register", "a", "V1"), ("register", "a", "OX"), ("register", "b", "V2"), ("register", "b", "DS1"), ("register", "a", "V2")]
    + [("overload_list",), ("overload_stacked",), ("overload_single", "b"), ("set_dispatch",)]
    + [("evaluate", tuple(sorted(o.items()))) for o in DICTS]
)
VARIANTS = [(False, "key"), (True, "key"), (False, "optdef"), (False, "dataset"), (True, "dataset"), (False, "dataset_nd"), (True, "dataset_nd")]


def replay(variant, hist):
    s = Sys1(variant)
    for i, o in enumerate(hist):
        r = s.op(o)
        if r == "n/a":
            return s, None, False
        if r:
            return s, (i, r), True
    return s, None, True


# the model must agree with the table the implementation actually holds
def table_agrees(s):
    real = {}
    for k, v in s.d.overloads.lookup.items():
        a = k[1] if isinstance(k, tuple) else k
        real[a] = v
    return set(real) == set(s.table)


# -------------------------------------------------------------------------
# part 2: interfaces

KINDS = ["ann", "abs", "fn", "ds", "const", "optd"]
KINDS_X = KINDS + ["absd", "dsd"]  # members declared with a dispatch of their own: the interface's dispatch replaces it
FORMS = ["value", "option", "dataset", "function"]


def build_interface(shape, name="I", dep=False):
    from labrea import Option, abstractdataset, dataset, interface

    ns = {"__annotations__": {}}
    defaults = {}
    prev = None
    for i, k in enumerate(shape):
        m = f"m{i}"
        if k == "ann":
            ns["__annotations__"][m] = int
        elif k == "abs":

            def f():
                pass

            f.__name__ = m
            ns[m] = abstractdataset(f)
        elif k == "absd":

            def f():
                pass

            f.__name__ = m
            ns[m] = abstractdataset(f, dispatch="OWN_KEY")
        elif k == "dsd":

            def f(m=m):
                return ("dflt-ds", m)

            f.__name__ = m
            ns[m] = dataset(f, dispatch=Option("OWN_KEY", "own"))
            defaults[m] = ("dflt-ds", m)
        elif k == "fn":
            if dep and prev is not None and not isinstance(prev, str):

                def f(p=prev, m=m):
                    return ("dflt-fn", m, p)

                defaults[m] = ("dep-fn", i - 1)
            else:

                def f(m=m):
                    return ("dflt-fn", m)

                defaults[m] = ("dflt-fn", m)
            f.__name__ = m
            ns[m] = staticmethod(f)
        elif k == "ds":

            def f(m=m):
                return ("dflt-ds", m)

            f.__name__ = m
            ns[m] = dataset(f)
            defaults[m] = ("dflt-ds", m)
        elif k == "const":
            ns[m] = ("dflt-const", m)
            defaults[m] = ("dflt-const", m)
        else:
            ns[m] = Option(f"OPT_{m}", ("dflt-opt", m))
            defaults[m] = ("dflt-opt", m)
        prev = ns.get(m, "annotation")
    cls = type(name, (), ns)
    return interface("IMPL")(cls), defaults


def build_impl(ifaces, overrides, alias, tag):
    """overrides: {member: form}"""
    from labrea import Option, dataset, implements

    ns = {}
    expect = {}
    for m, form in overrides.items():
        v = ("impl", tag, m, form)
        if form == "value":
            ns[m] = v
        elif form == "option":
            ns[m] = Option(f"IMPL_{m}", v)
        elif form == "dataset":

            def f(v=v):
                return v

            f.__name__ = m
            ns[m] = dataset(f)
        else:

            def f(v=v):
                return v

            f.__name__ = m
            ns[m] = staticmethod(f)
        expect[m] = v
    cls = type("Impl" + tag, (), ns)
    return implements(*ifaces, alias=alias)(cls), expect


def tables(iface):
    out = {}
    for n, m in vars(iface).items():
        if not n.startswith("_") and hasattr(m, "overloads"):
            out[n] = dict(m.overloads.lookup)
    return out


def check_interface(shape, res):
    fails = []
    n = len(shape)
    members = [f"m{i}" for i in range(n)]
    abstract = {f"m{i}" for i, k in enumerate(shape) if k in ("ann", "abs", "absd")}

    def fail(kind, d, case):
        if not any(f["sig"].startswith(f"C07|iface|{kind}|") for f in fails):
            fails.append({"sig": f"C07|iface|{kind}|{shape}|{case!r}", "what": f"{kind}: interface {shape} implementation {case!r}", "detail": d,
                          "case": ("iface", list(shape))})

    form_i = 0
    for r in range(0, n + 1):
        for subset in itertools.combinations(members, r):
            for unknown in (False, True):
                for alias in ("x", ["x", "y"]):
                    iface, defaults = build_interface(shape)
                    # a first, valid implementation under alias 'base' when possible, so tables are not empty
                    base_ok = False
                    if abstract:
                        try:
                            build_impl((iface,), {m: "value" for m in abstract}, "base", "B")
                            base_ok = True
                        except Exception as e:  # noqa
                            fail("valid-implementation-rejected", f"{type(e).__name__}: {e}", ("base", sorted(abstract)))
                    before = tables(iface)
                    overrides = {}
                    for m in subset:
                        overrides[m] = FORMS[form_i % len(FORMS)]
                        form_i += 1
                    if unknown:
                        overrides["nosuch"] = "value"
                    should_accept = abstract <= set(subset) and not unknown
                    case = (sorted(overrides.items()), alias)
                    res["evaluations"] += 1
                    res["nontrivial"] += 1
                    try:
                        impl, expect = build_impl((iface,), overrides, alias, "T")
                        accepted = True
                        err = None
                    except TypeError as e:
                        accepted = False
                        err = e
                    except Exception as e:  # noqa
                        accepted = False
                        err = e
                        fail("rejected-with-wrong-error", f"{type(e).__name__}: {e}", case)
                    if accepted != should_accept:
                        fail("accepted-but-invalid" if accepted else "rejected-but-valid", f"abstract members {sorted(abstract)}; error={err!r}", case)
                        continue
                    if not accepted:
                        after = tables(iface)
                        if {k: set(v) for k, v in after.items()} != {k: set(v) for k, v in before.items()}:
                            diff = {k: sorted(set(after[k]) - set(before[k])) for k in after if set(after[k]) != set(before[k])}
                            fail("rejected-implementation-registered-something", f"aliases added although the definition raised: {diff}", case)
                        continue
                    aliases = alias if isinstance(alias, list) else [alias]
                    for al in aliases:
                        for m in members:
                            # a member's own dispatch key is irrelevant once it belongs to the interface
                            got = observe(None, lambda: getattr(iface, m).evaluate({"IMPL": al, "OWN_KEY": "base"}))
                            if m in expect:
                                want = expect[m]
                            elif m in defaults:
                                want = defaults[m]
                            else:
                                want = None
                            if not got.ok or freeze(got.value) != freeze(want):
                                fail("member-resolves-to-the-wrong-implementation", f"{m} under IMPL={al}: {got!r}, expected {want!r}", case)
                    # another alias still sees defaults / base
                    for m in members:
                        got = observe(None, lambda: getattr(iface, m).evaluate({"IMPL": "base"}))
                        if base_ok:
                            want = ("impl", "B", m, "value") if m in abstract else defaults.get(m)
                            if not got.ok or freeze(got.value) != freeze(want):
                                fail("other-alias-affected", f"{m} under IMPL=base: {got!r}, expected {want!r}", case)
    return fails


def check_multi(res, shapes_a=None):
    """One implementation class for two interfaces that share member names: every pair of interface
    shapes with <= 2 members x every override subset.  Accepted iff every member that is abstract in
    EITHER interface is overridden; a rejected definition registers nothing in either interface."""
    fails = []
    shapes = []
    for n in (1, 2):
        shapes.extend(itertools.product(KINDS, repeat=n))
    for s1 in (shapes_a or shapes):
        for s2 in shapes:
            names = [f"m{i}" for i in range(max(len(s1), len(s2)))]
            need = {f"m{i}" for i, k in enumerate(s1) if k in ("ann", "abs")} | {f"m{i}" for i, k in enumerate(s2) if k in ("ann", "abs")}
            for r in range(0, len(names) + 1):
                for over in itertools.combinations(names, r):
                    i1, d1 = build_interface(s1, "I1")
                    i2, d2 = build_interface(s2, "I2")
                    before = (tables(i1), tables(i2))
                    res["evaluations"] += 1
                    res["nontrivial"] += 1
                    should = need <= set(over)
                    try:
                        impl, expect = build_impl((i1, i2), {m: "function" for m in over}, ["p", "q"], "M")
                        ok = True
                    except TypeError:
                        ok = False
                    tag = f"{s1}|{s2}|{over}"
                    if ok != should:
                        if not any(f["sig"].startswith("C07|multi|acceptance") for f in fails):
                            fails.append({"sig": f"C07|multi|acceptance|{tag}", "what": f"two-interface implementation of {s1}+{s2} overriding {sorted(over)}: accepted={ok}, abstract members {sorted(need)}",
                                          "detail": "", "case": ("multi1", list(s1))})
                        continue
                    if not ok:
                        after = (tables(i1), tables(i2))
                        if [{k: set(v) for k, v in t.items()} for t in after] != [{k: set(v) for k, v in t.items()} for t in before]:
                            if not any(f["sig"].startswith("C07|multi|partial") for f in fails):
                                fails.append({"sig": f"C07|multi|partial-registration|{tag}", "what": f"rejected two-interface implementation of {s1}+{s2} registered something", "detail": repr(after), "case": ("multi1", list(s1))})
                        continue
                    for iface, shape, dflt in ((i1, s1, d1), (i2, s2, d2)):
                        for i in range(len(shape)):
                            m = f"m{i}"
                            for al in ("p", "q"):
                                got = observe(None, lambda: getattr(iface, m).evaluate({"IMPL": al}))
                                want = expect.get(m, dflt.get(m))
                                if not got.ok or freeze(got.value) != freeze(want):
                                    if not any(f["sig"].startswith("C07|multi|resolve") for f in fails):
                                        fails.append({"sig": f"C07|multi|resolve|{tag}|{m}|{al}", "what": f"{iface.__name__}.{m} under IMPL={al}: {got!r} expected {want!r} ({s1}+{s2} overriding {sorted(over)})", "detail": "", "case": ("multi1", list(s1))})
    return fails


def check_overloaded_objects(res):
    """Two Overloaded objects built from the same initial dictionary stay independent, and the
    caller's dictionary is not modified by register()."""
    from labrea import Option, Overloaded, Value

    fails = []
    initial = {"a": Value("impl-a")}
    snapshot = dict(initial)
    o1 = Overloaded(Option("D"), initial, Value("default-1"))
    o2 = Overloaded(Option("D"), initial)
    o1.register("b", Value("impl-b"))
    res["evaluations"] += 4
    r = observe(None, lambda: o2.evaluate({"D": "b"}))
    if r.ok:
        fails.append({"sig": "C07|overloaded-objects|leak", "what": "an alias registered on one Overloaded is served by another one built from the same initial dictionary", "detail": repr(r), "case": ("ovobj",)})
    if initial != snapshot:
        fails.append({"sig": "C07|overloaded-objects|caller-dict", "what": "register() modified the dictionary the Overloaded was constructed from", "detail": repr(initial), "case": ("ovobj",)})
    for o, d, want in ((o1, "b", "impl-b"), (o1, "a", "impl-a"), (o2, "a", "impl-a"), (o1, "zz", "default-1")):
        r = observe(None, lambda: o.evaluate({"D": d}))
        if not r.ok or r.value != want:
            fails.append({"sig": f"C07|overloaded-objects|{d}", "what": f"Overloaded under D={d}: {r!r}, expected {want!r}", "detail": "", "case": ("ovobj",)})
    return fails


def check_dependent(res):
    """Interface members that depend on other members resolve the same alias."""
    from labrea import abstractdataset, dataset, interface, Option

    fails = []

    def src():
        pass

    src.__name__ = "src"
    a = abstractdataset(src)

    def derived(p=a):
        return ("derived", p)

    derived.__name__ = "derived"
    ns = {"src": a, "derived": dataset(derived)}
    iface = interface(Option("IMPL", "one"))(type("Dep", (), ns))
    build_impl((iface,), {"src": "value"}, "one", "1")
    build_impl((iface,), {"src": "dataset"}, ["two", "three"], "2")
    for al, want in (("one", ("impl", "1", "src", "value")), ("two", ("impl", "2", "src", "dataset")), ("three", ("impl", "2", "src", "dataset")), (None, ("impl", "1", "src", "value"))):
        o = {} if al is None else {"IMPL": al}
        got = observe(None, lambda: iface.derived.evaluate(o))
        res["evaluations"] += 1
        if not got.ok or freeze(got.value) != freeze(("derived", want)):
            fails.append({"sig": f"C07|dependent|{al}", "what": f"dependent member under IMPL={al}: {got!r}, expected {('derived', want)!r}", "detail": "", "case": ("dependent",)})
    got = observe(None, lambda: iface.derived.evaluate({"IMPL": "nosuch"}))
    if got.ok:
        fails.append({"sig": "C07|dependent|unregistered", "what": f"abstract member with an unregistered alias evaluated to {got!r}", "detail": "", "case": ("dependent",)})
    return fails


# -------------------------------------------------------------------------


def _shapes():
    shapes = []
    for n in (1, 2, 3):
        shapes.extend(itertools.product(KINDS, repeat=n))
    for n in (1, 2):
        shapes.extend(s for s in itertools.product(KINDS_X, repeat=n) if any(k in ("absd", "dsd") for k in s))
    return shapes


def cases(tier, seed):
    out = []
    depth = 4 if tier == "quick" else 5
    for vi in range(len(VARIANTS)):
        for first in range(len(OPS)):
            out.append(("bfs", vi, first, depth))
    shapes = _shapes()
    for a in range(0, len(shapes), 12):
        out.append(("ifaces", a, min(len(shapes), a + 12)))
    mshapes = []
    for n in (1, 2):
        mshapes.extend(itertools.product(KINDS, repeat=n))
    for a in range(0, len(mshapes), 3):
        out.append(("multi", [list(x) for x in mshapes[a : a + 3]]))
    out.append(("dependent",))
    out.append(("ovobj",))
    return out


def run_case(case):
    res = {"failures": [], "states": 0, "transitions": 0, "evaluations": 0, "nontrivial": 0, "samples": []}
    if case[0] == "hist":
        _, vi, hist = case
        hist = [tuple(o) if o[0] != "evaluate" else ("evaluate", tuple(tuple(p) for p in o[1])) for o in hist]
        s, bad, ok = replay(VARIANTS[vi], hist)
        res["transitions"] = len(hist)
        res["states"] = 1
        if bad:
            res["failures"].append(_fail(vi, hist[: bad[0] + 1], bad[1]))
        return res
    if case[0] == "bfs":
        _, vi, first, depth = case
        variant = VARIANTS[vi]
        seen = set()
        frontier = [[OPS[first]]]
        d = 1
        reported = False
        while frontier and d <= depth:
            nxt = []
            for hist in frontier:
                s, bad, ok = replay(variant, hist)
                if not ok:
                    continue
                res["transitions"] += 1
                if any(o[0] != "evaluate" for o in hist) and hist[-1][0] == "evaluate":
                    res["nontrivial"] += 1
                if bad:
                    if not reported:
                        reported = True
                        res["failures"].append(_fail(vi, hist[: bad[0] + 1], bad[1]))
                    continue
                if not table_agrees(s) and not reported:
                    reported = True
                    res["failures"].append(_fail(vi, hist, f"overload table {sorted(map(repr, s.d.overloads.lookup))} does not hold the registered aliases {sorted(s.table)}"))
                    continue
                st = s.state()
                if st in seen:
                    continue
                seen.add(st)
                for o in OPS:
                    nxt.append(hist + [o])
            frontier = nxt
            d += 1
        res["states"] = max(1, len(seen))
        if first == 0:
            res["samples"].append({"variant": list(variant), "history": [list(map(str, o)) for o in [OPS[0], OPS[8], OPS[4], OPS[8], OPS[9]]]})
        return res
    if case[0] == "ifaces":
        shapes = _shapes()
        for shape in shapes[case[1] : case[2]]:
            res["failures"].extend(check_interface(shape, res))
        res["states"] = 1
        if case[1] == 0:
            res["samples"].append({"interface_shape": list(shapes[7]), "override_forms": FORMS, "alias_forms": ["x", ["x", "y"]]})
        return res
    if case[0] == "iface":
        res["failures"] = check_interface(tuple(case[1]), res)
        res["states"] = 1
        return res
    if case[0] == "multi":
        res["failures"] = check_multi(res, [tuple(x) for x in case[1]])
        res["states"] = 1
        return res
    if case[0] == "multi1":
        res["failures"] = check_multi(res, [tuple(case[1])])
        res["states"] = 1
        return res
    if case[0] == "ovobj":
        res["failures"] = check_overloaded_objects(res)
        res["states"] = 1
        return res
    if case[0] == "dependent":
        res["failures"] = check_dependent(res)
        res["states"] = 1
        return res
    raise ValueError(case)


def _fail(vi, hist, d):
    return {"sig": f"C07|overload|{VARIANTS[vi]}|{hist!r}", "what": f"dataset variant {VARIANTS[vi]} after history {hist!r}", "detail": d,
            "case": ("hist", vi, [list(o) if o[0] != "evaluate" else ["evaluate", [list(p) for p in o[1]]] for o in hist])}


def summarize(results, tier):
    tot = lambda k: sum(r.get(k, 0) for r in results)  # noqa
    samples = []
    for r in results:
        samples.extend(r.get("samples", []))
    return {
        "states": tot("states"),
        "transitions": tot("transitions") + tot("evaluations"),
        "traces_validated_against_impl": tot("transitions") + tot("evaluations"),
        "evaluations": tot("transitions") + tot("evaluations"),
        "distinct_nontrivial": tot("nontrivial"),
        "interface_definitions": tot("evaluations"),
        "samples": samples[:6],
        "exhaustive": True,
    }

RULE += ' Session 4: dispatch dataset that cannot be evaluated when its option is absent (concrete and abstract).'
