"""C03 - keys() is sufficient and present-only; fingerprints depend on nothing else.

Exhaustive over catalogue terms x dictionary alphabets (all pairs inside each
alphabet for the fingerprint function), plus junk-key perturbations, plus the
same enumeration re-run in freshly started interpreters with different
PYTHONHASHSEED values whose fingerprint digests must be byte-identical.
"""
import copy
import hashlib
import itertools
import os
import subprocess
import sys

from .. import catalogue as cat
from ..build import make, observe
from ..common import same_obs, short
from ..optspace import exists, freeze, lookup, restrict
from ..ref import Ref

ID = "C03"
LEVEL = "exploration"
TECHNIQUE = "exhaustive enumeration of (term, dictionary) and of all dictionary pairs per term; cross-process fingerprint digests for 4 hash seeds"
RULE = (
    "terms = contexts^d x leaves (d<=2 quick, d<=3 over 12 core contexts thorough); for every dictionary o of the full product "
    "alphabet on which keys(o) succeeds: reported keys exist in o; o' = restrict(o, keys(o)) evaluates to the same "
    "outcome (memo-free twin) and reports the same keys; fingerprint(o) == fingerprint(o'); adding junk keys leaves keys "
    "and fingerprint unchanged; over ALL pairs (o1,o2) of the alphabet: fingerprints equal iff reported key sets and the "
    "values under them are equal. Non-trivial = term whose alphabet yields at least two distinct fingerprints. "
    "Hash seeds: the depth<=1 enumeration plus all multi-key depth-2 terms is repeated in subprocesses with "
    "PYTHONHASHSEED in {1, 2, random} and the per-term fingerprint digests must equal those of seed 0."
)
ASSUMPTIONS = [
    "restrict() (labmc/optspace.py) defines 'o restricted to exactly the reported keys'; a path through a list keeps the list",
    "AllOptions reports every top-level key, so junk keys legitimately change its key set and are not added for it",
]

CORE = ["apply", "bind_res", "switch_disp", "switch_branch", "case_cond", "coalesce_second", "dict", "map_ev", "ds_param", "ds_overload", "wo_SY", "cached"]
JUNK = [{"ZZ": 1}, {"ZZ": {"K": "{A}"}, "YY": [1]}]


def _leaves(depth, tier):
    return cat.QUICK2_LEAVES if (tier == "quick" and depth >= 2) else None


def _tier_of(case):
    return "thorough" if "thorough" in case else "quick"


def cases(tier, seed):
    out = []
    plan = [(0, None), (1, None), (2, None)]
    if tier == "thorough":
        plan.append((3, CORE))
    for depth, ctxs in plan:
        n = sum(1 for _ in cat.catalogue(depth, _leaves(depth, tier), ctxs))
        for a in range(0, n, 30):
            out.append(("batch", depth, ctxs, a, min(n, a + 30), tier))
    out.append(("seeds",))
    out.append(("typed", False))
    out.append(("typed", True))
    return out


def _reorder_sections(o):
    """o with the key order of every nested mapping reversed (top level untouched); None if nothing changes"""
    changed = [False]

    def rev(v, top):
        if isinstance(v, dict):
            items = list(v.items())
            if not top and len(items) > 1:
                items.reverse()
                changed[0] = True
            return {k: rev(x, False) for k, x in items}
        if isinstance(v, list):
            return [rev(x, False) for x in v]
        return copy.deepcopy(v)

    out = rev(o, True)
    return out if changed[0] else None


def _show_order(o):
    import json

    return json.dumps(o, default=repr)


def _uses_all(term):
    from ..terms import walk

    return any(n[0] == "all" for n in walk(term))


def check_term(label, term, dicts, res, digest=None, light=False):
    wk, objk = make(term, "cached")  # keys()/fingerprint() never touch the cache
    wt, objt = make(term, "nocache")
    rows = []
    fails = []

    def fail(kind, o, d):
        if not any(f["sig"].startswith(f"C03|{kind}|{label}|") for f in fails):
            fails.append(
                {
                    "sig": f"C03|{kind}|{label}|{o!r}",
                    "what": f"{kind}: {label} under {o!r}",
                    "detail": d + " term=" + short(term, 500),
                    "case": ("one", label, term, dicts),
                }
            )

    for o in dicts:
        res["evaluations"] += 1
        ko = observe(wk, lambda: objk.keys(copy.deepcopy(o)))
        if not ko.ok:
            res["keys_failed"] += 1
            continue
        keys = set(ko.value)
        # (a) present-only
        for k in keys:
            if not exists(o, k):
                fail("absent-key-reported", o, f"keys()={sorted(keys)} but {k!r} is not in the dictionary")
        fpo = observe(wk, lambda: objk.fingerprint(copy.deepcopy(o)))
        if not fpo.ok:
            fail("fingerprint-failed", o, repr(fpo))
            continue
        fp = fpo.value
        if digest is not None:
            digest.update(repr((label, o)).encode() + fp)
        # (b) sufficiency
        if all(exists(o, k) for k in keys):
            o2 = restrict(o, keys)
            k2 = observe(wk, lambda: objk.keys(copy.deepcopy(o2)))
            if not k2.ok or set(k2.value) != keys:
                fail("keys-not-stable-under-restriction", o, f"keys(o)={sorted(keys)} restricted={o2!r} keys(restricted)={k2!r}")
            e1 = observe(wt, lambda: objt.evaluate(copy.deepcopy(o)))
            e2 = observe(wt, lambda: objt.evaluate(copy.deepcopy(o2)))
            d = same_obs(e1, e2)
            if d:
                kind = "keys-insufficient"
                # known finding: Coalesce.keys reports only the selected member's keys.  The failure is
                # attributed to it only when adding the present keys that the reference read inside
                # abandoned members makes the reported set sufficient.
                r = Ref()
                r.run(term, o)
                for origin, sigkind in (("coalesce", "coalesce-abandoned-member-keys-unreported"), ("dispatch", "failed-dispatch-keys-unreported")):
                    extra = {k for k, present in r.abandoned_by_origin.get(origin, ()) if present and exists(o, k)}
                    if extra - keys:
                        o3 = restrict(o, keys | extra)
                        e3 = observe(wt, lambda: objt.evaluate(copy.deepcopy(o3)))
                        if same_obs(e1, e3) is None:
                            kind = sigkind
                            break
                if kind == "keys-insufficient":
                    both = {k for k, present in r.abandoned_reads if present and exists(o, k)}
                    if both - keys:
                        o3 = restrict(o, keys | both)
                        e3 = observe(wt, lambda: objt.evaluate(copy.deepcopy(o3)))
                        if same_obs(e1, e3) is None:
                            kind = "coalesce-abandoned-member-keys-unreported"
                            extra = both
                if kind == "keys-insufficient":
                    fail(kind, o, f"keys(o)={sorted(keys)} restricted={o2!r}: {d}")
                else:
                    res["known_family_cases"] = res.get("known_family_cases", 0) + 1
                    if not any(f["sig"] == "C03|" + kind for f in fails):
                        fails.append({"sig": "C03|" + kind,
                                      "what": ("Coalesce.keys() omits present keys that made an earlier member fail" if kind.startswith("coalesce")
                                               else "Switch.keys() omits present keys that made the dispatch fail (default chosen)"),
                                      "detail": f"{label} under {o!r}: keys(o)={sorted(keys)} restricted={o2!r}: {d}; sufficient with {sorted(extra)} added",
                                      "case": ("one", label, term, dicts)})
            f2 = observe(wk, lambda: objk.fingerprint(copy.deepcopy(o2)))
            if not f2.ok or f2.value != fp:
                fail("fingerprint-changes-under-restriction", o, f"{fp!r} vs {f2!r} restricted={o2!r}")
        # junk keys
        if not _uses_all(term) and not light:
            for junk in JUNK:
                oj = dict(copy.deepcopy(o))
                oj.update(copy.deepcopy(junk))
                kj = observe(wk, lambda: objk.keys(oj))
                fj = observe(wk, lambda: objk.fingerprint(oj))
                if not kj.ok or set(kj.value) != keys or not fj.ok or fj.value != fp:
                    fail("junk-key-changes-keys-or-fingerprint", o, f"junk={junk!r} keys={kj!r} fp={fj!r} expected keys={sorted(keys)} fp={fp!r}")
            # top-level key order
            if len(o) > 1:
                orev = {k: copy.deepcopy(o[k]) for k in reversed(list(o.keys()))}
                fr = observe(wk, lambda: objk.fingerprint(orev))
                if not fr.ok or fr.value != fp:
                    fail("key-order-changes-fingerprint", o, f"{fp!r} vs {fr!r}")
        # the same dictionary with the entries of every nested section written in the opposite order: the
        # values under the reported keys are equal, so the fingerprint must be
        oin = _reorder_sections(o)
        if oin is not None:
            kr = observe(wk, lambda: objk.keys(copy.deepcopy(oin)))
            fr = observe(wk, lambda: objk.fingerprint(copy.deepcopy(oin)))
            if not kr.ok or set(kr.value) != keys or not fr.ok or fr.value != fp:
                fail("section-entry-order-changes-fingerprint", o, f"re-ordered={_show_order(oin)} keys={kr!r} fp={fr!r} expected keys={sorted(keys)} fp={fp!r}")
        proj = freeze(sorted((k, freeze(lookup(o, k))) for k in keys if exists(o, k)))
        rows.append((o, keys, proj, fp))
    # (c) fingerprint is a function of (reported keys, values) and injective in them
    by_proj, by_fp = {}, {}
    for o, keys, proj, fp in rows:
        if proj in by_proj and by_proj[proj][1] != fp:
            fail("same-keys-and-values-different-fingerprint", o, f"other={by_proj[proj][0]!r} fps {by_proj[proj][1]!r} vs {fp!r}")
        by_proj.setdefault(proj, (o, fp))
        if fp in by_fp and by_fp[fp][1] != proj:
            fail("different-keys-or-values-same-fingerprint", o, f"other={by_fp[fp][0]!r} fp={fp!r} proj {by_fp[fp][1]!r} vs {proj!r}")
        by_fp.setdefault(fp, (o, proj))
    res["pairs"] += len(rows) * (len(rows) - 1) // 2
    res["terms"] += 1
    if len(by_fp) > 1:
        res["nontrivial"] += 1
    res["fingerprints"] += len(by_fp)
    return fails


def _seed_terms():
    """Terms for the cross-process run: depth <= 1 plus depth-2 terms built from
    two-key leaves under two-key contexts (where ordering of a key *set* matters)."""
    for depth in (0, 1):
        yield from cat.catalogue(depth)
    yield from cat.catalogue(2, ["tmpl", "dotted", "section", "chain", "tmplval"], ["list", "dict", "fa_kw", "ds_param", "cached", "switch_branch", "coalesce_second", "bind_res", "opt_default"])


def seed_digest():
    """Printed by the subprocess: one sha256 over (term, dictionary, fingerprint bytes)."""
    h = hashlib.sha256()
    n = 0
    multi = 0
    for label, term, spec in _seed_terms():
        w, obj = make(term, "cached")
        for o in cat.dictionaries(spec):
            k = observe(w, lambda: obj.keys(copy.deepcopy(o)))
            if not k.ok:
                continue
            f = observe(w, lambda: obj.fingerprint(copy.deepcopy(o)))
            h.update(repr((label, o)).encode() + (f.value if f.ok else b"<fail>"))
            n += 1
            if len(k.value) > 1:
                multi += 1
    return h.hexdigest(), n, multi


def run_case(case):
    res = {"failures": [], "evaluations": 0, "terms": 0, "nontrivial": 0, "pairs": 0, "keys_failed": 0,
           "fingerprints": 0, "samples": [], "seed_runs": 0}
    if case[0] == "one":
        _, label, term, dicts = case
        res["failures"] = check_term(label, term, dicts, res)
        return res
    if case[0] == "typed":
        # values that compare equal in Python but are different JSON values (1 / True, 0 / False, "1"):
        # reported keys with such values must get different fingerprints, whatever was fingerprinted first
        typed = [1, True, 0, False, "1", None, 2, "True"]
        if case[1]:
            typed = list(reversed(typed))
        terms = [("typed:opt", ("opt", "A")), ("typed:list", ("list", [("opt", "A"), ("opt", "S.X", ("val", 0))])),
                 ("typed:ds", ("ds", "td", {"params": [("opt", "A")]})), ("typed:cached", ("cached", ("apply", ("opt", "A"), ("fn", "f")), "c")),
                 ("typed:section", ("opt", "S"))]
        for label, term in terms:
            if label == "typed:section":
                dicts = [{"S": {"X": v}} for v in typed]
            else:
                dicts = [{"A": v} for v in typed] + [{"A": v, "S": {"X": w}} for v in typed[:3] for w in typed[:3]]
            res["failures"].extend(check_term(label + (":reversed" if case[1] else ""), term, dicts, res))
        return res
    if case[0] == "seeds":
        base, n, multi = seed_digest()
        res["seed_fingerprints"] = n
        res["seed_multi_key_fingerprints"] = multi
        procs = []
        for hs in ("1", "2", "random"):
            env = dict(os.environ)
            env["PYTHONHASHSEED"] = hs
            env["LABMC_PINNED"] = "1"
            procs.append(
                (hs, subprocess.Popen([sys.executable, "-B", "-m", "labmc.checks.c03"], env=env, stdout=subprocess.PIPE,
                                      stderr=subprocess.PIPE, cwd=os.path.dirname(os.path.dirname(os.path.dirname(__file__)))))
            )
        for hs, p in procs:
            out, err = p.communicate()
            got = out.decode().strip().split()
            res["seed_runs"] += 1
            if p.returncode != 0 or not got or got[0] != base:
                res["failures"].append(
                    {
                        "sig": "C03|hash-seed|fingerprints differ between interpreter processes",
                        "what": f"fingerprint digest under PYTHONHASHSEED={hs} differs from PYTHONHASHSEED=0",
                        "detail": f"seed0={base} seed{hs}={got} stderr={err.decode()[-300:]}",
                        "case": ("seeds",),
                    }
                )
        res["samples"].append({"hash_seed_digest": base, "fingerprints": n, "with_more_than_one_key": multi, "seeds": ["0", "1", "2", "random"]})
        return res
    _, depth, ctxs, a, b = case[:5]
    for label, term, spec in itertools.islice(cat.catalogue(depth, _leaves(depth, _tier_of(case)), ctxs), a, b):
        dicts = cat.dictionaries(spec)
        # quick tier: junk-key and key-order perturbations on terms of depth <= 1 only (depth 2 keeps
        # present-only, sufficiency, restriction and the all-pairs fingerprint function)
        fl = check_term(label, term, dicts, res, light=(depth >= 2 and len(case) > 5 and case[5] == "quick"))
        res["failures"].extend(fl)
        if a == 0 and depth == 1 and len(res["samples"]) < 3:
            res["samples"].append({"label": label, "term": short(term, 300), "dictionaries": len(dicts), "example": dicts[-1]})
    return res


def summarize(results, tier):
    tot = lambda k: sum(r.get(k, 0) for r in results)  # noqa
    samples = []
    for r in results:
        samples.extend(r.get("samples", []))
    return {
        "evaluations": tot("evaluations"),
        "distinct_nontrivial": tot("nontrivial"),
        "terms": tot("terms"),
        "dictionary_pairs_compared": tot("pairs"),
        "distinct_fingerprints": tot("fingerprints"),
        "dictionaries_where_keys_failed(skipped)": tot("keys_failed"),
        "cases_attributed_to_known_finding_coalesce_keys": tot("known_family_cases"),
        "hash_seed_processes": tot("seed_runs") + 1,
        "hash_seed_fingerprints_each": tot("seed_fingerprints"),
        "hash_seed_multi_key_fingerprints_each": tot("seed_multi_key_fingerprints"),
        "samples": samples[:8],
        "exhaustive": True,
    }


if __name__ == "__main__":
    # subprocess entry for the hash-seed run
    from .. import runner

    runner.pin_environment(os.environ.get("PYTHONHASHSEED", "0"), module="labmc.checks.c03")
    d, n, multi = seed_digest()
    print(d, n, multi)
