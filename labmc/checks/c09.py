"""C09 - templates substitute options and parameters transitively and report their reads.

Exhaustive: all templates of <= 3 segments over a 5-symbol alphabet x parameter
forms x a dictionary alphabet with templated values to reference depth 3, as a
Template, as an Option's stored value, and as an Option's default.  Oracle: the
independent substitution of labmc/ref.py and the set of keys it reads.
"""
import copy
import itertools

from ..build import make, observe
from ..common import same_outcome, short
from ..optspace import ABSENT, exists, product_dicts
from ..ref import Ref

ID = "C09"
LEVEL = "exploration"
TECHNIQUE = "exhaustive enumeration of template strings x parameter forms x dictionaries against an independent substitution and read-set reference"
RULE = (
    "segments {x, {A}, {S.X}, {:p:}, escaped \\{e\\}}, all sequences of length 1..3 (155 templates; thorough 1..5, 3905); parameter p in "
    "{constant, Option, dataset}; dictionaries = product A in {absent,1,'a','{B}','p{B}q',['{B}'],{'K':'{B}'}} x B in "
    "{absent,2,'{C}',['{C}']} x C in {absent,3} x S.X in {absent,5,'{B}'} (reference depth 3); forms: Template, "
    "Option whose stored value is the template, Option whose default is the template.  Checked: value, missing-key "
    "failure naming the absent reference, keys() >= present reads, explain() >= all reads.  Plus: 4 single-reference forms x "
    "A ranging over every container of nesting depth <= 2 (lists / sections of lists / sections) over {1,'{B}','p{B}q'} x B x C, and 5 forms over "
    "sections whose entries refer to their own siblings ({S.Y} inside S).  Non-trivial = case whose "
    "substitution reads at least two keys."
)
ASSUMPTIONS = [
    "dict-valued options substituted into a multi-segment template are skipped (their string form is re-parsed as a template by confectioner; DESIGN 1.2)",
]

SEGS = ["x", "{A}", "{S.X}", "{:p:}", "\\{e\\}"]
SPEC = [
    ("A", [ABSENT, 1, "a", "{B}", "p{B}q", ["{B}"], {"K": "{B}"}]),
    ("B", [ABSENT, 2, "{C}", ["{C}"]]),
    ("C", [ABSENT, 3]),
    ("S.X", [ABSENT, 5, "{B}"]),
]
PARAMS = [("const", ("val", "P")), ("opt", ("opt", "B")), ("ds", ("ds", "pd", {"params": [("opt", "C", ("val", 0))]}))]


def templates(maxlen=3):
    for n in range(1, maxlen + 1):
        for combo in itertools.product(range(len(SEGS)), repeat=n):
            yield combo


def _nested_values():
    """every container of nesting depth <= 2 over {1, '{B}', 'p{B}q'}: lists / sections of lists / sections"""
    L0 = [1, "{B}", "p{B}q"]
    D1 = [[x] for x in L0] + [{"K": x} for x in L0]
    D2 = []
    for y in D1:
        D2 += [[y], {"K": y}, [0, y], {"J": 1, "K": y}]
    return L0 + D1 + D2


NESTED_FORMS = [
    ("Option('A')", ("opt", "A")),
    ("Template('{A}')", ("tmpl", "{A}", {})),
    ("Option('T') with T='{A}'", None),
    ("Option('T', default='{A}')", ("opt", "T", ("tmpl", "{A}", {}))),
]
# sections whose entries refer to their own siblings
SELF_SECTIONS = [{"X": "{S.Y}", "Y": 1}, {"X": "{S.Y}"}, {"X": "{S.Y}", "Y": "{B}"}, {"X": ["{S.Y}"], "Y": 1}, {"X": {"K": "{S.Y}"}, "Y": "{B}"}]
SELF_FORMS = [
    ("Option('S')", ("opt", "S")),
    ("Option('S.X')", ("opt", "S.X")),
    ("Template('{S.X}')", ("tmpl", "{S.X}", {})),
    ("Option('T', default='{S.X}')", ("opt", "T", ("tmpl", "{S.X}", {}))),
    ("Option('T') with T='{S}'", None),
]


def cases(tier, seed):
    out = [("nested", i) for i in range(len(NESTED_FORMS))] + [("selfsect", i) for i in range(len(SELF_FORMS))]
    maxlen = 3 if tier == "quick" else 5
    combos = list(templates(maxlen))
    for a in range(0, len(combos), 5):
        out.append(("tmpl", a, min(len(combos), a + 5), maxlen))
    return out


def _skip(combo, o, form):
    a = o.get("A")
    multi = len(combo) > 1
    if isinstance(a, dict) and multi and 1 in combo:
        return True
    return False


def check(term, o, res, label, built=None):
    """evaluate / keys / explain of one term under one dictionary against the reference.  ``built`` is a
    long-lived (world, object) pair shared by all dictionaries of one form: explain() / keys() of one
    dictionary must not leave anything behind that changes the answers for the next."""
    fails = []
    w, obj = built if built is not None else make(term, "nocache")
    r = Ref()
    want = r.run(term, o)
    # the reads of the *substitution*: not the parameters' pseudo keys, and not the own key of an
    # Option that falls back to its (templated) default, which is optional by construction
    reads = {(k, p) for k, p in r.reads if not k.startswith(":") and not (k in r.optional_absent and not p)}
    got = observe(w, lambda: obj.evaluate(copy.deepcopy(o)))
    res["evaluations"] += 1
    if len({k for k, _ in reads}) >= 2:
        res["nontrivial"] += 1

    def fail(kind, d):
        fails.append({"sig": f"C09|{kind}|{label}|{o!r}", "what": f"{kind}: {label} under {o!r}", "detail": d + " term=" + short(term, 300), "case": ("one", label, term, o)})

    d = same_outcome(got, want, strict_kind=True)
    if d and not got.ok and not want.ok and got.kind == want.kind == "missing" and got.key and not exists(o, got.key):
        d = None  # several references are absent: any one of them may be named
    if d:
        fail("substitution-differs", d)
    present = {k for k, p in reads if p}
    allr = {k for k, p in reads}
    if want.ok:
        ks = observe(w, lambda: obj.keys(copy.deepcopy(o)))
        if not ks.ok:
            fail("keys-failed-although-evaluable", repr(ks))
        elif not present <= set(ks.value):
            fail("keys-omit-a-read", f"keys()={sorted(ks.value)} but the substitution reads {sorted(present)}")
    ex = observe(w, lambda: obj.explain(copy.deepcopy(o)))
    if not ex.ok:
        fail("explain-failed", repr(ex))
    elif not allr <= set(ex.value):
        fail("explain-omits-a-read", f"explain()={sorted(ex.value)} but the substitution reads {sorted(allr)}")
    if want.ok:
        va = observe(w, lambda: obj.validate(copy.deepcopy(o)))
        if not va.ok:
            fail("validate-failed-although-evaluable", repr(va))
    return fails


def run_case(case):
    res = {"failures": [], "evaluations": 0, "nontrivial": 0, "skipped": 0, "templates": 0, "samples": []}
    if case[0] == "one":
        _, label, term, o = case
        res["failures"] = check(term, o, res, label)
        return res
    if case[0] == "seq":
        _, label, term, hist = case
        built = make(term, "nocache")
        for o in hist:
            found = check(term, o, res, label, built)
        res["failures"] = found
        return res
    if case[0] in ("nested", "selfsect"):
        label, term = (NESTED_FORMS if case[0] == "nested" else SELF_FORMS)[case[1]]
        if case[0] == "nested":
            spec = [("A", [ABSENT] + _nested_values()), ("B", [ABSENT, 2, "{C}"]), ("C", [ABSENT, 3])]
        else:
            spec = [("S", SELF_SECTIONS), ("B", [ABSENT, 2])]
        reported = set()
        for o in product_dicts(spec):
            oo = copy.deepcopy(o)
            t = term
            if t is None:
                t = ("opt", "T")
                oo["T"] = "{A}" if case[0] == "nested" else "{S}"
            for f in check(t, oo, res, label):
                kind = f["sig"].split("|")[1]
                if kind not in reported:
                    reported.add(kind)
                    res["failures"].append(f)
        if case[1] == 0:
            res["samples"].append({"space": case[0], "form": label, "example_options": oo})
        return res
    _, a, b = case[:3]
    maxlen = case[3] if len(case) > 3 else 3
    dicts = list(product_dicts(SPEC))
    for combo in list(templates(maxlen))[a:b]:
        s = "".join(SEGS[i] for i in combo)
        res["templates"] += 1
        forms = []
        if 3 in combo:
            for pn, pt in PARAMS:
                forms.append((f"Template({s!r},p={pn})", ("tmpl", s, {"p": pt})))
        else:
            forms.append((f"Template({s!r})", ("tmpl", s, {})))
            forms.append((f"Option('T') with T={s!r}", None))
            forms.append((f"Option('T', default={s!r})", ("opt", "T", ("tmpl", s, {}))))
        # an Option with a constant default whose stored value is the template: the default is for an ABSENT key,
        # never for a present value whose references cannot be resolved
        if 3 not in combo:
            forms.append((f"Option('T', default='dflt') with T={s!r}", "stored-with-default"))
        for label, term in forms:
            reported = set()
            stored = term is None or term == "stored-with-default"
            t = ("opt", "T") if term is None else (("opt", "T", ("val", "dflt")) if term == "stored-with-default" else term)
            built = make(t, "nocache")
            history = []
            # largest dictionaries first: whatever explain() / keys() remember from a rich dictionary must not
            # be demanded from a poorer one
            for o in sorted(dicts, key=lambda d: -len(d)):
                if _skip(combo, o, label):
                    res["skipped"] += 1
                    continue
                oo = copy.deepcopy(o)
                if stored:
                    oo["T"] = s
                history.append(oo)
                found = check(t, oo, res, label, built)
                if found:
                    fresh = {g["sig"].split("|")[1] for g in check(t, oo, {"evaluations": 0, "nontrivial": 0}, label)}
                    for f in found:
                        if f["sig"].split("|")[1] not in fresh:  # needs the earlier dictionaries on the same object
                            f["case"] = ("seq", label, t, list(history))
                            f["what"] += f" (after {len(history) - 1} other dictionaries on the same object)"
                for f in found:
                    kind = f["sig"].split("|")[1]
                    if kind not in reported:
                        reported.add(kind)
                        res["failures"].append(f)
        if a == 0 and len(res["samples"]) < 2:
            res["samples"].append({"template": s, "forms": [f[0] for f in forms], "dictionaries": len(dicts), "example_options": dicts[-1]})
    return res


def summarize(results, tier):
    tot = lambda k: sum(r.get(k, 0) for r in results)  # noqa
    samples = []
    for r in results:
        samples.extend(r.get("samples", []))
    return {
        "evaluations": tot("evaluations"),
        "distinct_nontrivial": tot("nontrivial"),
        "templates": tot("templates"),
        "max_segments": 3 if tier == "quick" else 5,
        "skipped_dict_in_multi_segment": tot("skipped"),
        "samples": samples[:5],
        "exhaustive": True,
    }
