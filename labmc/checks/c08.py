"""C08 - pre-set options override, defaults yield, sections merge; inputs never mutated.

Exhaustive over expressions X x wrapper stacks (depth <= 3) x option
dictionaries.  Oracle: the wrapped object evaluated under o equals the bare X
(memo-free twin) evaluated under the overlay computed by labmc/optspace.py,
composed inside-out; o and every pre-set / default dictionary handed to labrea
are deep-equal to their snapshots after evaluate / validate / keys / explain.
"""
import copy
import itertools

from ..build import make, observe
from ..common import same_obs, short
from ..optspace import ABSENT, freeze, is_absent, overlay, product_dicts

ID = "C08"
LEVEL = "exploration"
TECHNIQUE = "exhaustive enumeration of wrapper stacks x option dictionaries with an independent overlay oracle and deep-snapshot immutability checks"
RULE = (
    "X in {tuple of A/S.X/S.Y reads, whole-section read, dataset with callback+effects (also spelled as a chain of specialised factories with .where() parameters), dataset with dispatch and "
    "overloads, dataset whose overloads are registered after the wrapper stack was built, datasets defined from another dataset / from a default-options wrapper, nocache dataset}; wrapper layers WithOptions / WithDefaultOptions / decorator options= / "
    "default_options= / both / .with_options / .with_default_options, all stacks of depth <= 3 (dataset-level layers "
    "only while the object is still a Dataset); 4 pre-set and 3 default dictionaries overlapping inside section S; "
    "caller dictionaries = product A x S.X x S.Y x LST, passed as ONE dictionary object updated in place between calls; X also includes consumers / callbacks that modify the values they receive in place.  Non-trivial = (stack, o) where the overlay differs from o."
)
ASSUMPTIONS = [
    "overlay(lo, hi) in labmc/optspace.py is the specification of 'overlaid by' (sections merged key by key, lists and scalars replaced)",
    "a pre-set section that is a scalar under a dotted read is not generated (known finding C04 scalar-prefix)",
]

PS = [{"A": 9}, {"S": {"X": 9}}, {"A": 4, "S": {"X": 4, "Y": 7}, "LST": [3, [1, 2]]}, {}]
DS_ = [{"A": 8}, {"S": {"Y": 8}, "LST": [9, [8]]}, {"A": 3, "S": {"X": 6, "Y": 3, "Z": 5}}]
OSPEC = [("A", [ABSENT, 1]), ("S.X", [ABSENT, 1]), ("S.Y", [ABSENT, 2]), ("LST", [ABSENT, [5, [6]]])]

READ3 = ("tuple", [("opt", "A", ("val", 0)), ("opt", "S.X", ("val", 0)), ("opt", "S.Y", ("val", 0))])


def _xs():
    X = []
    X.append(("read3", READ3, False))
    X.append(("section", ("opt", "S", ("val", {})), False))
    X.append(("ds-cb-eff", ("ds", "x3", {"params": [("opt", "A", ("val", 0)), ("opt", "S", ("val", {}))], "callback": ("fn", "cb"), "effects": ["e"]}), True))
    X.append(("ds-cb-eff-chain", ("ds", "x3c", {"params": [("opt", "A", ("val", 0)), ("opt", "S", ("val", {}))], "callback": ("fn", "cb"), "effects": ["e"], "factory": "chain"}), True))
    X.append(("ds-dispatch", ("ds", "x4", {"params": [("opt", "S.Y", ("val", 0))], "dispatch": ("optkey", "A"),
                                           "overloads": [(9, ("opt", "S.X", ("val", 0))), (1, ("val", "one")), (8, READ3)], "callback": ("fn", "cb")}), True))
    # an overload registered on the base dataset AFTER every wrapper / derivative of the stack has been built
    X.append(("ds-late-overload", ("ds", "x6", {"params": [("opt", "S.Y", ("val", 0))], "dispatch": ("optkey", "A"),
                                                "overloads": [(1, ("val", "one"))], "late_overloads": [(9, ("opt", "S.X", ("val", 0))), (8, READ3)]}), True))
    # datasets defined from an expression (another dataset / a wrapper) instead of a function
    X.append(("ds-of-dataset", ("ds", "x8", {"definition": ("ds", "x8i", {"params": [READ3], "options": {"S": {"Y": 6}}})}), True))
    X.append(("ds-of-default-wrapper", ("ds", "x9", {"definition": ("withopt", READ3, {"A": 5, "S": {"X": 5}}, False), "callback": ("fn", "cb")}), True))
    X.append(("ds-nocache", ("ds", "x5", {"params": [READ3], "cache": "none"}), True))
    # consumers that modify the values they receive in place: nothing they get may alias the caller's or
    # the pre-set dictionaries
    X.append(("mutating-consumer", ("tuple", [("apply", ("opt", "S", ("val", {})), ("fn", "f_mutate")), ("apply", ("opt", "LST", ("val", [])), ("fn", "f_mutate"))]), False))
    X.append(("ds-mutating-callback", ("ds", "x7", {"params": [("opt", "S", ("val", {})), ("opt", "LST", ("val", []))], "callback": ("fn", "f_mutate_all"), "cache": "none"}), True))
    return X


def _layers(is_ds_level, first):
    """Possible next layers. Returns (kind, dict)."""
    out = []
    for P in PS:
        out.append(("WO", P))
    for D in DS_:
        out.append(("WD", D))
    if is_ds_level:
        for P in PS[:3]:
            out.append(("SO", P))
        for D in DS_:
            out.append(("SD", D))
        if first:
            for P in PS[:3]:
                out.append(("DO", P))
            for D in DS_[:2]:
                out.append(("DD", D))
            out.append(("DB", (PS[1], DS_[2])))
            out.append(("DB", (PS[2], DS_[1])))
    return out


def stacks(is_ds, depth):
    """All stacks (innermost first) of 1..depth layers."""

    def rec(stack, ds_level):
        if stack:
            yield list(stack)
        if len(stack) == depth:
            return
        for kind, d in _layers(ds_level, not stack):
            yield from rec(stack + [(kind, d)], ds_level and kind in ("SO", "SD", "DO", "DD", "DB"))

    yield from rec([], is_ds)


def wrap(term, stack):
    t = term
    for kind, d in stack:
        if kind == "WO":
            t = ("withopt", t, d, True)
        elif kind == "WD":
            t = ("withopt", t, d, False)
        elif kind == "SO":
            t = ("dswo", t, d)
        elif kind == "SD":
            t = ("dswdo", t, d)
        else:
            props = dict(t[2])
            if kind == "DO":
                props["options"] = d
            elif kind == "DD":
                props["default_options"] = d
            else:
                props["options"], props["default_options"] = d
            t = ("ds", t[1], props)
    return t


def effective(o, stack):
    """Overlay composed from the outermost layer inwards."""
    eff = copy.deepcopy(o)
    for kind, d in reversed(stack):
        if kind in ("WO", "SO", "DO"):
            eff = overlay(eff, d)
        elif kind in ("WD", "SD", "DD"):
            eff = overlay(d, eff)
        else:  # DB: default_options is the outer layer, options the inner one
            P, D = d
            eff = overlay(overlay(D, eff), P)
    return eff


def callers():
    # sections stay sections: a caller that replaces section S by a scalar or a list makes the
    # overlay order-dependent (overlay is not associative across type conflicts); the property
    # quantifies over dictionaries that overlap *inside* the section (DESIGN section 5)
    return list(product_dicts(OSPEC))


def cases(tier, seed):
    depth = 2 if tier == "quick" else 3
    out = []
    for xi, (name, term, is_ds) in enumerate(_xs()):
        firsts = _layers(is_ds, True)
        for fi in range(len(firsts)):
            out.append(("stacks", xi, fi, depth))
    if tier == "quick":
        # one complete depth-3 slice selected by the seed (never described as the whole depth-3 layer)
        xs = _xs()
        xi = seed % len(xs)
        firsts = _layers(xs[xi][2], True)
        out.append(("stacks", xi, (seed // len(xs)) % len(firsts), 3))
    return out


def check_stack(name, term, stack, res, only_o=None):
    fails = []
    wterm = wrap(term, stack)
    w, obj = make(wterm, "nocache")
    wx, xobj = make(term, "nocache")

    def fail(kind, o, d):
        sig = f"C08|{kind}|{name}|{stack!r}|{o!r}"
        if not any(f["sig"].startswith(f"C08|{kind}|{name}|{stack!r}") for f in fails):
            fails.append({"sig": sig, "what": f"{kind}: {name} wrapped by {stack!r} (innermost first) under {o!r}", "detail": d + " term=" + short(wterm, 400), "case": ("one", name, term, stack, o)})

    shared = {}
    for o in callers():
        if only_o is not None and o != only_o:
            continue
        eff = effective(o, stack)
        if isinstance(eff.get("S"), (int, str, list)) and "S" in eff:
            # a scalar/list S under a dotted read: known finding C04 scalar-prefix, and lists are not sections
            if any(k in repr(term) for k in ("'S.X'", "'S.Y'")):
                continue
        # the caller reuses ONE dictionary object, updated in place between calls
        shared.clear()
        shared.update(copy.deepcopy(o))
        oc = shared
        snap = copy.deepcopy(o)
        got = observe(w, lambda: obj.evaluate(oc))
        want = observe(wx, lambda: xobj.evaluate(copy.deepcopy(eff)))
        res["evaluations"] += 1
        if freeze(eff) != freeze(o):
            res["nontrivial"] += 1
        d = same_obs(got, want)
        if d:
            fail("overlay-mismatch", o, f"effective options per model = {eff!r}: {d}")
        for method in ("validate", "keys", "explain"):
            observe(w, lambda: getattr(obj, method)(oc))
        if freeze(oc) != freeze(snap):
            fail("caller-dictionary-mutated", o, f"became {oc!r}")
        bad = w.mutated_option_dicts()
        if bad:
            fail("preset-dictionary-mutated", o, f"{bad!r}")
    return fails


def run_case(case):
    res = {"failures": [], "evaluations": 0, "nontrivial": 0, "stacks": 0, "samples": []}
    if case[0] == "one":
        _, name, term, stack, o = case
        res["failures"] = check_stack(name, term, [tuple(l) for l in stack], res, only_o=o)
        return res
    _, xi, fi, depth = case
    name, term, is_ds = _xs()[xi]
    first = _layers(is_ds, True)[fi]
    for stack in stacks(is_ds, depth):
        if stack[0] != first:
            continue
        if depth == 3 and len(stack) < 3 and case[3] == 3 and False:
            continue
        res["stacks"] += 1
        res["failures"].extend(check_stack(name, term, stack, res))
        if fi == 0 and len(stack) == 2 and len(res["samples"]) < 1:
            res["samples"].append({"X": name, "stack_innermost_first": [list(l) for l in stack], "caller": {"A": 1, "S": {"X": 1}},
                                   "effective": effective({"A": 1, "S": {"X": 1}}, stack)})
    return res


def summarize(results, tier):
    tot = lambda k: sum(r.get(k, 0) for r in results)  # noqa
    samples = []
    for r in results:
        samples.extend(r.get("samples", []))
    return {
        "evaluations": tot("evaluations"),
        "distinct_nontrivial": tot("nontrivial"),
        "wrapper_stacks": tot("stacks"),
        "max_stack_depth": 2 if tier == "quick" else 3,
        "samples": samples[:5],
        "exhaustive": True,
    }
