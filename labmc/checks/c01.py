"""C01 - caching is transparent.

Explicit-state search.  A system is one long-lived build of one or more entry
expressions sharing datasets/caches; state = contents of every MemoryCache;
transition = evaluate(entry, o) for every o of the dictionary alphabet, executed
on the real objects; oracle = the memo-free twin (same terms built with NoCache
everywhere and cached() dropped) gives the same value / the same failure.
"""
import copy
import itertools

from .. import catalogue as cat
from ..build import World, observe
from ..common import same_obs, short
from ..kripke import CacheSystem, bfs
from ..optspace import ABSENT, exists, is_absent, set_path
from ..ref import Ref
from ..terms import walk

ID = "C01"
LEVEL = "model_checking"
TECHNIQUE = "explicit-state BFS over cache states of the real objects; differential oracle against the memo-free twin"
RULE = (
    "systems = catalogue terms (contexts^d x leaves, d<=2 quick / d=3 as cache x 12 core x 12 core thorough) that contain a cache, plus hand-listed "
    "multi-entry systems (with_options derivatives sharing a cache, diamonds, cached wrappers around shared datasets); "
    "state = canonical contents of all caches; transitions = evaluate(entry, o) for every dictionary of the full "
    "product alphabet (depth-1 systems: all ordered pairs, closure to a fixpoint when it closes under the state cap; "
    "depth-2 systems: all o1, then every single-key perturbation o2 of o1); the caller's dictionary is ONE object "
    "updated in place between evaluations; (term, dictionary) pairs that hit the two recorded keys() findings are not "
    "evaluated; non-trivial = a system in which at least "
    "two dictionaries give different outcomes and at least one transition is served from a cache"
)
ASSUMPTIONS = [
    "histories longer than the explored depth are covered only where the search reached a fixpoint (reported per run)",
    "raw single-use iterators (Iter/Map results) are never placed directly under a cache (documented lazy, like map())",
    "values and dictionary shapes outside the alphabets are not covered",
]

CACHE_CTX = ["cached", "ds_param", "ds_overload", "ds_callback", "ds_cb_over", "ds_effect", "ds_options_A",
             "ds_options_SY", "ds_defopts_B", "dswo_A", "dswdo_B", "ds_dispatch", "ds_abs_dispatch"]
TOP_CACHE = ["cached", "ds_param"]
CORE3 = ["apply", "bind_res", "switch_branch", "case_cond", "coalesce_second", "coalesce_dom", "dict", "map_ev", "ds_overload", "wo_SY", "wdo_B", "opt_default"]


def _has_cache(term):
    from ..terms import walk

    return any(n[0] in ("cached", "ds") and not (n[0] == "ds" and n[2].get("cache") == "none") for n in walk(term))


# --------------------------------------------------------------------------
# hand-listed multi-entry systems


def _multi():
    A3 = ("A", [ABSENT, 1, 2])
    B3 = ("B", [ABSENT, 1, 9])
    out = []
    base = ("ds", "base", {"params": [("opt", "A"), ("opt", "B", ("val", 0))], "callback": ("fn", "cb")})
    out.append(("multi:dswo+base", [("dswo", base, {"B": 9}), base], [A3, B3]))
    out.append(("multi:dswdo+base", [("dswdo", base, {"B": 9}), base], [A3, B3]))
    base_e = ("ds", "base", {"params": [("opt", "A"), ("opt", "B", ("val", 0))], "effects": ["e"]})
    out.append(("multi:dswo+base(effects)", [("dswo", base_e, {"B": 9}), base_e], [A3, B3]))
    base_d = (
        "ds",
        "base",
        {"params": [("opt", "A")], "dispatch": ("optkey", "D"), "overloads": [("x", ("opt", "B"))], "callback": ("fn", "cb")},
    )
    out.append(("multi:dswo+base(dispatch)", [("dswo", base_d, {"B": 9}), base_d], [A3, B3, ("D", [ABSENT, "x", "zz"])]))
    out.append(("multi:dswo(dispatch preset)+base", [("dswo", base_d, {"D": "x"}), base_d], [A3, B3, ("D", [ABSENT, "x"])]))
    # an overload registered on the dataset after its derivatives were taken: derivative and dataset share the
    # cache and must go on sharing the overload table
    base_l = (
        "ds",
        "base",
        {"params": [("opt", "A")], "dispatch": ("optkey", "D"), "overloads": [("x", ("opt", "B"))],
         "late_overloads": [("y", ("apply", ("opt", "A"), ("fn", "f")))], "callback": ("fn", "cb")},
    )
    out.append(("multi:dswo/dswdo+base(late overload)", [("dswo", base_l, {"B": 9}), base_l, ("dswdo", base_l, {"D": "y"})],
                [("A", [1, 2]), ("B", [ABSENT, 1, 9]), ("D", [ABSENT, "x", "y"])]))
    inner = ("ds", "inner", {"params": [("opt", "A")]})
    mid1 = ("ds", "mid1", {"params": [inner, ("opt", "B", ("val", 0))]})
    mid2 = ("ds", "mid2", {"params": [inner]})
    top = ("ds", "top", {"params": [mid1, mid2]})
    out.append(("multi:diamond", [top, mid1, inner], [A3, B3]))
    out.append(("multi:cached(inner)+inner", [("cached", inner, "c"), inner, ("apply", inner, ("fn", "f"))], [A3]))
    wo = ("ds", "wo", {"params": [inner], "options": {"A": 9}})
    out.append(("multi:preset over shared inner", [wo, inner], [A3]))
    sect = ("ds", "sect", {"params": [("opt", "S")]})
    out.append(
        (
            "multi:section+member",
            [sect, ("ds", "memb", {"params": [("opt", "S.X")]}), ("withopt", sect, {"S": {"Y": 9}}, True)],
            [("S.X", [ABSENT, 1, 2]), ("S.Y", [ABSENT, 5, 9])],
        )
    )
    m = ("mapvalues", inner, [("A", ("opt", "M"))])
    out.append(("multi:map over cached", [("apply", m, ("fn", "f_list")), inner], [A3, ("M", [ABSENT, [1, 2], [2, 3]])]))
    # a memoizing consumer over a materialised Map whose mapped key is the dispatch value of the mapped expression:
    # every element of the product reads different options, and all of them belong to the consumer's fingerprint
    msw = ("switch", ("optkey", "D"), [("x", ("opt", "A")), ("y", ("opt", "B"))], ("val", "dflt"))
    mm = ("apply", ("mapvalues", msw, [("D", ("opt", "M"))]), ("fn", "f_list"))
    M4 = ("M", [ABSENT, ["x", "y"], ["y", "x"], ["zz", "y"]])
    out.append(("multi:consumer of map over dispatch", [("ds", "user", {"params": [mm]}), ("cached", mm, "c")], [A3, B3, M4]))
    mds = ("ds", "mbase", {"params": [("opt", "A")], "dispatch": ("optkey", "D"), "overloads": [("y", ("opt", "B"))], "cache": "none"})
    mm2 = ("apply", ("mapvalues", mds, [("D", ("opt", "M"))]), ("fn", "f_list"))
    out.append(("multi:consumer of map over dataset dispatch", [("ds", "user", {"params": [mm2]})], [A3, B3, M4]))
    # an overload expressed through derivatives of the very dataset it overloads: evaluating it nests evaluations
    # that all go through ONE shared cache object (derivatives share their parent's cache)
    da = ("dswo", ("dsref", "table"), {"D": "file", "A": 1})
    db = ("dswo", ("dsref", "table"), {"D": "file", "A": 2})
    for nm, ov in (("dataset overload", ("ds", "both", {"params": [da, db]})), ("plain overload", ("list", [da, db]))):
        table = ("ds", "table", {"params": [("opt", "A")], "dispatch": ("optkey", "D"), "late_overloads": [("both", ov)]})
        out.append((f"multi:self-derivative {nm}", [table], [("A", [ABSENT, 1, 2, 3]), ("D", [ABSENT, "file", "both"])]))
    # two datasets defined through ONE stored factory that was given a cache callable: same keys, different bodies
    sf1 = ("ds", "double", {"params": [("opt", "A")], "cache": "stored_factory"})
    sf2 = ("ds", "square", {"params": [("opt", "A")], "cache": "stored_factory", "callback": ("fn", "cb")})
    out.append(("multi:two datasets from one stored factory", [sf1, sf2], [A3, B3]))
    sw = ("switch", ("optkey", "D"), [("x", inner), ("y", ("ds", "other", {"params": [("opt", "B")]}))], ("val", "dflt"))
    out.append(("multi:cached switch", [("cached", sw, "c"), inner], [A3, B3, ("D", [ABSENT, "x", "y", "zz"])]))
    co = ("coalesce", [inner, ("ds", "other", {"params": [("opt", "B")]}), ("val", "none")])
    out.append(("multi:cached coalesce", [("cached", co, "c"), ("ds", "user", {"params": [co]})], [A3, B3]))
    tm = ("tmpl", "{A}-{:p:}", {"p": inner})
    out.append(("multi:cached template", [("cached", tm, "c"), ("ds", "user", {"params": [tm]})], [("A", [ABSENT, 1, 2, "{B}"]), B3]))
    return out


# --------------------------------------------------------------------------


def _plan(tier):
    """(depth, outer contexts or None, all contexts or None, mode)"""
    plan = []
    plan.append(("cat", 1, CACHE_CTX, None, "full"))
    plan.append(("cat", 2, TOP_CACHE, None, "nbr"))
    plan.append(("cat2in", 2, None, TOP_CACHE, "nbr"))
    if tier == "thorough":
        plan.append(("cat", 2, [c for c in CACHE_CTX if c not in TOP_CACHE], None, "nbr"))
        plan.append(("cat2in", 2, None, [c for c in CACHE_CTX if c not in TOP_CACHE], "nbr"))
        plan.append(("cat3", 3, TOP_CACHE, CORE3, "nbr"))
    return plan


def _terms(kind, depth, outer, inner):
    names = [c[0] for c in cat.CONTEXTS]
    if kind == "cat" and depth == 1:
        combos = [(o,) for o in outer]
    elif kind == "cat3":
        combos = [(o, i, j) for o in outer for i in inner for j in inner]
    elif kind == "cat":
        combos = [(o, i) for o in outer for i in names]
    else:  # cache inside any outer context
        combos = [(o, i) for o in names for i in inner if o not in TOP_CACHE]
    for combo in combos:
        for ln in [l[0] for l in cat.LEAVES]:
            r = cat.compose(combo, ln)
            if r is None:
                continue
            term, spec = r
            if _has_cache(term):
                yield "/".join(combo) + ":" + ln, term, spec


def cases(tier, seed):
    out = []
    for label, entries, spec in _multi():
        out.append(("sys", label, entries, spec, "full", 4 if tier == "quick" else 6))
    for kind, depth, outer, inner, mode in _plan(tier):
        for label, term, spec in _terms(kind, depth, outer, inner):
            d = (3 if tier == "quick" else 5) if mode == "full" else 2
            out.append(("sys", label, [term], spec, mode, d))
    return out


def _dicts(spec):
    keys = [k for k, _ in spec]
    combos = list(itertools.product(*[range(len(vs)) for _, vs in spec]))
    dicts = []
    for combo in combos:
        d = {}
        for (k, vs), i in zip(spec, combo):
            if is_absent(vs[i]):
                continue
            set_path(d, k, copy.deepcopy(vs[i]))
        dicts.append(d)
    return combos, dicts


def _build(entries, mode, faults=None):
    w = World(mode, faults)
    objs = [w.build(t) for t in entries]
    w.start()
    return w, objs


def replay_history(label, entries, hist):
    """Plain replay: fresh objects, evaluate the history, compare each step with the twin."""
    wc, objs = _build(entries, "cached")
    wt, tobjs = _build(entries, "nocache")
    fails = []
    for n, (e, o) in enumerate(hist):
        got = observe(wc, lambda: objs[e].evaluate(copy.deepcopy(o)))
        want = observe(wt, lambda: tobjs[e].evaluate(copy.deepcopy(o)))
        d = same_obs(got, want)
        if d:
            fails.append((n, d))
    return fails


def run_case(case):
    res = {"failures": [], "states": 0, "transitions": 0, "systems": 0, "closed": 0, "nontrivial": 0, "hits": 0,
           "samples": [], "capped": 0}
    if case[0] == "hist":
        _, label, entries, hist = case
        for n, d in replay_history(label, entries, hist):
            res["failures"].append(_fail(label, entries, hist[: n + 1], d))
        res["transitions"] = len(hist)
        res["states"] = 1
        return res
    _, label, entries, spec, mode, depth = case
    combos, dicts = _dicts(spec)
    wc, objs = _build(entries, "cached")
    wt, tobjs = _build(entries, "nocache")
    twin = {}
    outcomes = set()
    for e in range(len(entries)):
        for j, o in enumerate(dicts):
            twin[(e, j)] = observe(wt, lambda: tobjs[e].evaluate(copy.deepcopy(o)))
            outcomes.add(repr(twin[(e, j)].canon()))
    actions = [(e, j) for e in range(len(entries)) for j in range(len(dicts))]
    # inputs that hit the two recorded keys() findings (a present key makes a coalesce member or a
    # dispatch fail; see known_findings.json, property C03) are not evaluated here
    skip = set()
    if any(n[0] in ("coalesce", "switch", "overloaded", "case", "ds") for t in entries for n in walk(t)):
        r = Ref()
        for e in range(len(entries)):
            for j, o in enumerate(dicts):
                r.run(entries[e], o)
                if any(present and exists(o, k) for k, present in r.abandoned_reads):
                    skip.add((e, j))
    res["excluded_known_finding_inputs"] = len(skip)
    system = CacheSystem(wc)
    hits = [0]
    reported = [False]

    shared = {}

    def step(ai, hist):
        e, j = actions[ai]
        wc.reset_log()
        # one dictionary OBJECT for the whole history, updated in place (the usual sweep loop
        # "opts['A'] = a; graph(opts)"): nothing may be remembered by object identity
        shared.clear()
        shared.update(copy.deepcopy(dicts[j]))
        got = observe(wc, lambda: objs[e].evaluate(shared))
        if not any(k == "body" for k, _ in wc.log) and got.ok:
            hits[0] += 1
        d = same_obs(got, twin[(e, j)])
        if d and not reported[0]:
            reported[0] = True
            h = [(actions[a][0], dicts[actions[a][1]]) for a in hist + [ai]]
            return [_fail(label, entries, h, d)]
        return None

    allowed = [ai for ai, a in enumerate(actions) if a not in skip]

    def enabled(hist):
        return allowed

    if mode == "nbr":

        def enabled(hist):
            if not hist:
                return allowed
            e0, j0 = actions[hist[-1]]
            c0 = combos[j0]
            return [
                ai
                for ai in allowed
                if sum(1 for a, b in zip(combos[actions[ai][1]], c0) if a != b) <= 1
            ]

    r = bfs(system, actions, step, max_depth=depth, max_states=600, enabled=enabled)
    res["failures"] = r["failures"]
    res["states"] = r["states"]
    res["transitions"] = r["transitions"]
    res["systems"] = 1
    res["closed"] = 1 if r["closed"] else 0
    res["capped"] = 1 if r["capped"] else 0
    res["hits"] = hits[0]
    res["nontrivial"] = 1 if (len(outcomes) > 1 and hits[0] > 0) else 0
    if label.startswith("multi:") or label.startswith("cached:opt"):
        res["samples"].append(
            {"system": label, "entries": [short(t, 200) for t in entries], "dictionaries": len(dicts),
             "states": r["states"], "transitions": r["transitions"], "closed": r["closed"],
             "example_history": [[0, dicts[-1]], [0, dicts[0]]]}
        )
    return res


def _fail(label, entries, hist, d):
    return {
        "sig": f"C01|{label}|{hist!r}",
        "what": f"cached evaluation differs from the memo-free twin in system {label} after history {hist!r}",
        "detail": d + " entries=" + short(entries, 500),
        "case": ("hist", label, entries, hist),
    }


def summarize(results, tier):
    tot = lambda k: sum(r.get(k, 0) for r in results)  # noqa
    samples = []
    for r in results:
        samples.extend(r.get("samples", []))
    return {
        "states": tot("states"),
        "transitions": tot("transitions"),
        "traces_validated_against_impl": tot("transitions"),
        "evaluations": tot("transitions"),
        "distinct_nontrivial": tot("nontrivial"),
        "systems": tot("systems"),
        "systems_closed_to_fixpoint": tot("closed"),
        "systems_state_capped": tot("capped"),
        "transitions_served_from_cache": tot("hits"),
        "inputs_excluded_because_they_hit_a_recorded_keys_finding": tot("excluded_known_finding_inputs"),
        "samples": samples[:8],
        "exhaustive": True,
        "explanation": "every transition is an execution of the real evaluate() on restored real cache contents",
    }

RULE += ' Session 4 systems: memoizing consumers over a materialised Map whose mapped key is the dispatch value; overloads expressed through with_options derivatives of the dataset they overload (nested evaluations through one shared cache); two datasets defined through one stored factory holding a cache callable.'
