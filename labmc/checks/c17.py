"""C17 - an unreliable cache backend costs recomputation, never a wrong value or failure.

Fault enumeration: a scripted Cache backend (one variant overriding exists(),
one relying on the ABC's get()-based exists(), one of the latter kind that chains its failures
with 'raise ... from err') whose i-th call takes its
behaviour from a script over {behave, miss, lie-exists, forget}; ALL scripts for
the first N backend calls x all evaluation histories (<= 3 evaluations over the
dictionary alphabet) x {single dataset, chain, diamond, overload} sharing the
backend.
"""
import copy
import itertools

from ..build import World, observe
from ..common import same_obs, short

ID = "C17"
LEVEL = "fault_enumeration"
TECHNIQUE = "exhaustive enumeration of backend fault scripts (4 behaviours per call, first N calls) x evaluation histories on the real Cached / cache request handlers, differential oracle against the memo-free twin"
RULE = (
    "behaviours per backend call: B behave; M miss (get raises CacheGetFailure, exists answers False, also right "
    "after a set = read-back failure); L lie (exists answers True whatever is stored; the following get then fails "
    "if nothing is stored); F forget (the requested entry is dropped before the call is served).  Scripts: all 4^N "
    "for N=5 quick / N=7 thorough, calls beyond N behave; plus persistent variants (scripts of length 2-3 whose last "
    "behaviour repeats for every later call) on three graphs.  Histories: all sequences of 1..2 evaluations over the "
    "dictionaries (1..3 for the single-dataset graph at N=5).  Non-trivial = executions in which at least one non-B symbol was actually consumed by a call."
)
ASSUMPTIONS = [
    "the backend follows the Cache contract: when get() returns, it returns what was stored for that fingerprint",
]
SYMS = "BMLF"


def make_backend(script, variant, counter):
    from labrea.cache import Cache, CacheGetFailure

    class Scripted(Cache):
        def __init__(self):
            self.store = {}

        def _sym(self):
            i = counter["calls"]
            counter["calls"] += 1
            if script.endswith("*"):
                body = script[:-1]
                s = body[i] if i < len(body) else body[-1]  # a persistent fault: the last behaviour repeats forever
            else:
                s = script[i] if i < len(script) else "B"
            if s != "B":
                counter["faults"] += 1
            counter["trace"].append(s)
            return s

        def get(self, evaluatable, options):
            fp = evaluatable.fingerprint(options)
            s = self._sym()
            if s == "F":
                self.store.pop(fp, None)
            if s == "M" or fp not in self.store:
                if variant == "abc-exists-chained":
                    # the idiom of MemoryCache.get: the failed read is reported with its cause attached
                    try:
                        raise KeyError(fp)
                    except KeyError as err:
                        raise CacheGetFailure(evaluatable, options, self) from err
                raise CacheGetFailure(evaluatable, options, self)
            return self.store[fp]

        def set(self, evaluatable, options, value):
            fp = evaluatable.fingerprint(options)
            s = self._sym()
            self.store[fp] = value
            if s == "F":
                self.store.pop(fp, None)

    class ScriptedExists(Scripted):
        def exists(self, evaluatable, options):
            fp = evaluatable.fingerprint(options)
            s = self._sym()
            if s == "F":
                self.store.pop(fp, None)
            if s == "M":
                return False
            if s == "L":
                return True
            return fp in self.store

    return ScriptedExists() if variant == "own-exists" else Scripted()


def graphs():
    inner = ("ds", "inner", {"params": [("opt", "A")]})
    mid = ("ds", "mid", {"params": [inner, ("opt", "B", ("val", 0))], "callback": ("fn", "cb")})
    mid2 = ("ds", "mid2", {"params": [inner]})
    top = ("ds", "top", {"params": [mid, mid2]})
    ov = ("ds", "ov", {"params": [("opt", "A")], "dispatch": inner, "overloads": [(("inner", 1), ("opt", "B", ("val", 0))), ("zz", ("val", "never")), (7, ("val", "never")), (None, ("val", "never"))]})
    guarded = ("ds", "guarded", {"params": [("optdom", "A", None, ("vals", [1]))]})
    co = ("coalesce", [guarded, ("val", "fallback")])
    return [("single", inner), ("chain", mid), ("diamond", top), ("overload-on-dataset", ov), ("cached-combinator", ("cached", ("apply", inner, ("fn", "f")), "c")),
            # a cached member that cannot be evaluated for A=2 (outside its domain): the coalesce falls through
            ("coalesce-of-cached", co), ("switch-on-coalesce", ("switch", co, [("fallback", ("val", "fallback-branch"))], ("val", "no-branch"))),
            # a memoizing consumer over a coalesce whose fallback reads another option
            ("outer-over-coalesce-of-cached", ("ds", "outer", {"params": [("coalesce", [guarded, ("opt", "Y", ("val", 0))])]}),
             [{"A": 2, "Y": 1}, {"A": 2, "Y": 2}, {"A": 1, "Y": 1}])]


def graph_dicts(gi):
    g = graphs()[gi]
    return g[2] if len(g) > 2 else DICTS


DICTS = [{"A": 1}, {"A": 2}]


def histories(maxlen, ndicts=2):
    for n in range(1, maxlen + 1):
        yield from itertools.product(range(ndicts), repeat=n)


def cases(tier, seed):
    N = 5 if tier == "quick" else 7
    out = []
    for gi in range(len(graphs())):
        for variant in ("own-exists", "abc-exists", "abc-exists-chained"):
            if variant == "abc-exists-chained" and gi not in (0, 2):
                continue
            # shard by the first two script symbols: each shard is a complete sub-space
            for pre in itertools.product(SYMS, repeat=2):
                out.append(("scripts", gi, variant, "".join(pre), N))
    return out


def run_one(gi, variant, script, hist):
    label, term = graphs()[gi][:2]
    dicts = graph_dicts(gi)
    counter = {"calls": 0, "faults": 0, "trace": []}
    # one store per dataset (a fingerprint identifies an assignment, not the dataset); the call
    # counter and the script are shared by all of them
    w = World("cached", cache_factory=lambda cid: make_backend(script, variant, counter))
    obj = w.build(term)
    w.start()
    wt = World("nocache")
    tobj = wt.build(term)
    wt.start()
    fails = []
    for n, j in enumerate(hist):
        o = dicts[j]
        got = observe(w, lambda: obj.evaluate(copy.deepcopy(o)))
        want = observe(wt, lambda: tobj.evaluate(copy.deepcopy(o)))
        d = same_obs(got, want)
        if d:
            fails.append((n, ("failed" if not got.ok else "wrong-value"), d))
            break
    return fails, counter


def run_case(case):
    res = {"failures": [], "evaluations": 0, "nontrivial": 0, "scripts": 0, "samples": [], "max_calls": 0}
    if case[0] == "one":
        _, gi, variant, script, hist = case
        fails, counter = run_one(gi, variant, script, hist)
        res["evaluations"] = 1
        for n, kind, d in fails:
            res["failures"].append(_fail(gi, variant, script, hist, kind, d))
        return res
    _, gi, variant, pre, N = case
    reported = set()
    scripts = [pre + "".join(rest) for rest in itertools.product(SYMS, repeat=N - len(pre))]
    if gi in (0, 1, 5, 7):
        # persistent faults ("at any call"): short scripts whose last behaviour repeats for ever
        scripts += [pre + "".join(rest) + "*" for n in (0, 1) for rest in itertools.product(SYMS, repeat=n)]
    for script in scripts:
        res["scripts"] += 1
        for hist in histories(3 if (N <= 5 and gi == 0) else 2, len(graph_dicts(gi))):
            fails, counter = run_one(gi, variant, script, hist)
            res["evaluations"] += 1
            res["max_calls"] = max(res["max_calls"], counter["calls"])
            if counter["faults"]:
                res["nontrivial"] += 1
            for n, kind, d in fails:
                if kind not in reported:
                    reported.add(kind)
                    res["failures"].append(_fail(gi, variant, script, list(hist), kind, d))
    if pre == "BB":
        res["samples"].append({"graph": graphs()[gi][0], "backend": variant, "script": pre + "MLF", "history": [DICTS[0], DICTS[0], DICTS[1]]})
    return res


def _fail(gi, variant, script, hist, kind, d):
    return {"sig": f"C17|{graphs()[gi][0]}|{variant}|{kind}|{script}|{list(hist)}",
            "what": f"{kind}: graph {graphs()[gi][0]} with backend {variant}, script {script} (per backend call), history {[graph_dicts(gi)[j] for j in hist]}",
            "detail": d, "case": ("one", gi, variant, script, list(hist))}


def summarize(results, tier):
    tot = lambda k: sum(r.get(k, 0) for r in results)  # noqa
    samples = []
    for r in results:
        samples.extend(r.get("samples", []))
    return {
        "evaluations": tot("evaluations"),
        "distinct_nontrivial": tot("nontrivial"),
        "fault_scripts": tot("scripts"),
        "max_backend_calls_in_one_history": max([r.get("max_calls", 0) for r in results] or [0]),
        "script_length": 5 if tier == "quick" else 7,
        "samples": samples[:5],
        "exhaustive": True,
    }
