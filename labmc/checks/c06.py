"""C06 - laziness: only bodies on the selected path run, and only when evaluated.

  construction  building any catalogue term, and every sequence (<= 4 steps, all
                orders) of definition-time operations on a shared set of objects,
                runs no user callable;
  evaluation    on the memo-free build the set of user callables that ran lies
                between the reference's must-set (selected path) and may-set
                (plus bodies of abandoned trials), and every producer recorded by
                the reference ran before its consumer.
"""
import copy
import itertools

from .. import catalogue as cat
from ..build import World, make, observe
from ..common import short
from ..ref import Ref

ID = "C06"
LEVEL = "exploration"
TECHNIQUE = "exhaustive enumeration of terms x dictionaries with execution-log oracle (must/may sets and producer-before-consumer order from the reference), plus all construction sequences up to length 4"
RULE = (
    "evaluation: contexts^d x leaves (d<=2 quick, d<=3 core thorough) x full dictionary products, bodies/steps/"
    "predicates/factories/effects all logging; construction: 12 definition-time steps (decorator forms, overload, "
    "stacked overload, register, set_dispatch, with_options, +, >>, interface, implementation, datasetclass, "
    "combinator wrapping) in all sequences of length <= 4 quick / 5 thorough on shared objects.  Non-trivial = "
    "(term, o) where the reference's may-set is strictly larger than what ran or some callable of the term did not run."
)
ASSUMPTIONS = [
    "bodies of structure-determining positions inside a coalesce member that is then abandoned are allowed but not required (DESIGN section 5)",
]
CORE = [
    "apply", "apply_step", "bind_src", "bind_res", "switch_disp", "switch_branch", "switch_dflt", "case_disp",
    "case_branch", "case_cond", "coalesce_first", "coalesce_second", "list", "map_ev", "fa_kw", "ds_param",
    "ds_dispatch", "ds_overload", "ds_callback", "opt_default", "tmpl_param", "pipe",
]
LOGGED = ("body", "fn", "pred", "factory", "effect")


def syntactic_structural(term):
    """(kind, name) of every user callable that sits in a branch-choosing position of the term."""
    from ..terms import structural_subterms

    out = set()
    for sub in structural_subterms(term):
        out |= all_callables(sub)
    return out


def cases(tier, seed):
    out = []
    plan = [(0, None), (1, None), (2, None)]
    if tier == "thorough":
        plan.append((3, CORE))
    for depth, ctxs in plan:
        n = sum(1 for _ in cat.catalogue(depth, None, ctxs))
        for a in range(0, n, 40):
            out.append(("batch", depth, ctxs, a, min(n, a + 40)))
    L = 4 if tier == "quick" else 5
    for first in range(len(STEPS)):
        out.append(("construct", first, L))
    out.append(("autochain", 3 if tier == "quick" else 4))
    return out


def run_autochain(maxlen, res):
    """Option.auto(...) >> t1 >> t2 ... as a namespace member against Option(<qualified key>, ...) >> t1 >> t2 ...:
    the same user callables run, in the same order (each transformation's input is produced before the
    transformation, a step's own parameters are produced when that step is reached)."""
    from labrea import Option

    fails = []
    for n in range(1, maxlen + 1):
        for seq in itertools.product(range(3), repeat=n):
            w = World("nocache")
            tforms = []
            for j, kind in enumerate(seq):
                if kind == 0:
                    tforms.append(w.fn(f"f{j}"))
                elif kind == 1:
                    tforms.append(w.build(("step", f"g{j}", {"y": ("ds", f"pd{j}", {"params": [("opt", "B", ("val", 0))]})})))
                else:
                    tforms.append(w.build(("step", f"h{j}", {"y": ("opt", "U", ("val", 1))})))
            auto = Option.auto(3)
            q = Option("NS.X", 3)
            for t in tforms:
                auto = auto >> t
                q = q >> t
            ns = Option.namespace(type("NS", (), {"X": auto}))
            if w.build_violations:
                fails.append({"sig": f"C06|autochain|ran-during-construction|{seq}", "what": f"user callables ran while a namespace with an automatic member piped through {seq} was defined", "detail": repr(w.build_violations), "case": ("autochain", maxlen)})
            w.start()
            for o in ({}, {"NS": {"X": 1}}, {"NS": {"X": 1}, "B": 2, "U": 5}):
                res["evaluations"] += 1
                w.reset_log()
                a = observe(w, lambda: ns.X.evaluate(copy.deepcopy(o)))
                la = list(w.log)
                w.reset_log()
                b = observe(w, lambda: q.evaluate(copy.deepcopy(o)))
                lb = list(w.log)
                if repr(a) != repr(b) or la != lb:
                    sig = f"C06|autochain|{seq}"
                    if not any(f["sig"] == sig for f in fails):
                        fails.append({"sig": sig, "what": f"namespace member Option.auto(3) piped through transformations {seq} (0 function, 1 step with a dataset parameter, 2 step with an option parameter) under {o!r} differs from the qualified Option piped the same way",
                                      "detail": f"member: {a!r} log {la}; qualified: {b!r} log {lb}", "case": ("autochain", maxlen)})
    return fails


def all_callables(term):
    """Every (kind, name) of a user callable occurring in the term."""
    from ..terms import dsprops, walk

    out = set()
    for n in walk(term):
        if n[0] == "ds":
            out.add(("body", n[1]))
            for e in dsprops(n)["effects"]:
                out.add(("effect", e if isinstance(e, str) else e[1]))
        elif n[0] in ("fn", "fa", "pa", "step"):
            nm = n[1]
            out.add(("pred" if nm.startswith("p_") else "fn", nm))
        elif n[0] == "optf":
            out.add(("factory", n[1]))
        elif n[0] == "optdom" and n[3][0] == "pred":
            out.add(("pred", n[3][1]))
        elif n[0] == "computation":
            for e in n[2]:
                out.add(("effect", e))
    return out


def check_eval(label, term, o, w, obj, r, res):
    w.reset_log()
    got = observe(w, lambda: obj.evaluate(copy.deepcopy(o)))
    want = r.run(term, o)
    res["evaluations"] += 1
    ran = [(k, n) for k, n in w.log if k in LOGGED]
    ran_set = set(ran)
    must = {(k, n) for k, n in r.must() if k in LOGGED}
    may = {(k, n) for k, n in r.may() if k in LOGGED}
    if got.ok != want.ok:
        return None  # outcome disagreements are C05's business
    allc = all_callables(term)
    if (allc - ran_set) or (may - ran_set):
        res["nontrivial"] += 1
    if not must <= ran_set:
        return ("needed-body-did-not-run", f"missing {sorted(must - ran_set)}; ran {ran}")
    needless = {e for e in r.needless if e[0] in LOGGED} - must
    if ran_set & needless:
        return ("body-of-a-member-that-cannot-be-selected-ran", f"ran {sorted(ran_set & needless)} inside a coalesce member that lacks an option (it is not selected, and the option's absence is known without running it); ran {ran}; selected path {sorted(must)}")
    if not ran_set <= may:
        return ("unselected-body-ran", f"ran {sorted(ran_set - may)} which is not on the selected path (nor in an abandoned trial); ran {ran}; selected path {sorted(must)}")
    first = {}
    for i, e in enumerate(ran):
        first.setdefault(e, i)
    for a, b in r.before:
        if a == b or a[0] not in LOGGED or b[0] not in LOGGED:
            continue
        if b in first and a in must and b in must:
            if a not in first or first[a] > first[b]:
                return ("consumer-ran-before-producer", f"{b} ran before its input {a} was produced; order {ran}")
    return None


# --------------------------------------------------------------------------
# construction sequences


def _mk(world, name, *defaults):
    body = world.body_fn(name, len(defaults))
    body.__defaults__ = tuple(defaults) or None
    return body


def s_dataset(w, st):
    from labrea import Option, dataset

    st["d"] = dataset(_mk(w, "d", Option("A", 1)))


def s_dataset_dep(w, st):
    from labrea import Option, dataset

    dep = st.get("d") or Option("A", 1)
    st["d2"] = dataset(dispatch="D", callback=w.fn("cb"), effects=[w.effect_fn("e")])(_mk(w, "d2", dep, Option("B", 2)))


def s_overload(w, st):
    tgt = st.get("d2")
    if tgt is None:
        return
    st["ov"] = tgt.overload("x")(_mk(w, "ovx", st.get("d") or 0))
    tgt.overload(["y", "z"])(tgt.overload("w")(_mk(w, "ovyzw")))


def s_register(w, st):
    from labrea import Value

    tgt = st.get("d2")
    if tgt is None:
        return
    tgt.register("r", st.get("d") or Value(3))


def s_set_dispatch(w, st):
    from labrea import Option

    tgt = st.get("d")
    if tgt is None:
        return
    tgt.set_dispatch(st.get("d2") or Option("DD", "k"))
    tgt.register("k", Option("A"))


def s_with_options(w, st):
    for k in ("d", "d2"):
        if st.get(k) is not None:
            st[k + "wo"] = st[k].with_options({"A": 5}).with_default_options({"B": 6})


def s_pipeline(w, st):
    from labrea import Option, pipeline_step

    def step(x, y=Option("Y", 1)):
        return w.fn("stepf")(x, y)

    ps = pipeline_step(step)
    st["pipe"] = ps + w.fn("plain") + (ps + ps)
    src = st.get("d2") or st.get("d") or Option("A", 1)
    st["applied"] = src >> st["pipe"]
    st["applied2"] = src.apply(w.fn("plain2")).bind(lambda v: Option("Z", 0))


def s_interface(w, st):
    from labrea import Option, abstractdataset, dataset, interface

    dep = st.get("d") or Option("A", 1)
    ns = {
        "__annotations__": {"imp": int, "bnd": int, "swd": int, "csd": int},
        "abs": abstractdataset(_mk(w, "i_abs")),
        "plain": staticmethod(_mk(w, "i_plain", dep)),
        "ds": dataset(_mk(w, "i_ds", dep)),
        "const": 5,
        "optd": Option("Q", 1),
    }
    st["iface"] = interface("IMPL")(type("Iface", (), ns))


def s_implementation(w, st):
    from labrea import Option, dataset

    iface = st.get("iface")
    if iface is None:
        return
    from labrea import case, switch

    ns = {"imp": 3, "abs": _mk(w, "impl_abs", st.get("d") or Option("A", 1)), "ds": dataset(_mk(w, "impl_ds")), "const": Option("C", 2),
          # members whose structure depends on a dataset that can be evaluated without any option: defining the
          # implementation must not evaluate it (nor ask it anything that does)
          "bnd": dataset(_mk(w, "impl_src")).bind(lambda v: Option("Z", 0)),
          "swd": switch(dataset(_mk(w, "impl_disp")), {1: Option("Z", 0)}, Option("Y", 1)),
          "csd": case(dataset(_mk(w, "impl_csrc"))).when(w.fn("p_true"), Option("Z", 0)).otherwise(1)}
    st["impl"] = iface.implementation(["one", "two"])(type("Impl", (), ns))


def s_datasetclass(w, st):
    from labrea import Option, datasetclass

    ns = {"__annotations__": {"a": int, "b": int, "c": int}, "a": st.get("d") or Option("A", 1), "b": Option("B", 2), "c": 7}
    st["dc"] = datasetclass(type("DC", (), ns))


def s_combinators(w, st):
    from labrea import Map, Option, Template, cached, case, coalesce, evaluatable_dict, evaluatable_list, switch
    from labrea.option import WithOptions

    d = st.get("d2") or st.get("d") or Option("A", 1)
    st["comb"] = [
        cached(d), Map(d, {"A": Option("M", [1, 2])}).values, switch("D", {"x": d}, d), case(d).when(w.fn("p_true"), d).otherwise(0),
        coalesce(d, 1), evaluatable_list(d, d), evaluatable_dict({"k": d}), Template("{A}{:p:}", p=d), WithOptions(d, {"A": 1}),
        Option("K", d), Option("K", default_factory=w.fn("factory_like")),
    ]


def s_effects(w, st):
    from labrea.cache import MemoryCache

    for k in ("d", "d2"):
        if st.get(k) is not None:
            st[k].add_effects(w.effect_fn("late_effect"))
            st[k].set_cache(MemoryCache)
            st[k].disable_effects()
            st[k].enable_effects()


STEPS = [s_dataset, s_dataset_dep, s_overload, s_register, s_set_dispatch, s_with_options, s_pipeline, s_interface,
         s_implementation, s_datasetclass, s_combinators, s_effects]


def run_construction(seq):
    w = World("cached")
    st = {}
    try:
        for i in seq:
            STEPS[i](w, st)
    except Exception as e:  # noqa  a step that is not applicable in this order
        return w.build_violations, f"{type(e).__name__}: {e}"
    return w.build_violations, None


def run_case(case):
    res = {"failures": [], "evaluations": 0, "terms": 0, "nontrivial": 0, "sequences": 0, "samples": [], "seq_errors": 0}
    if case[0] == "one":
        _, label, term, o = case
        w, obj = make(term, "nocache")
        if w.build_violations:
            res["failures"].append(_fail("ran-during-construction", label, term, o, repr(w.build_violations)))
        v = check_eval(label, term, o, w, obj, Ref(), res)
        if v:
            res["failures"].append(_fail(v[0], label, term, o, v[1]))
        return res
    if case[0] == "seq":
        viol, err = run_construction(case[1])
        res["sequences"] = 1
        if viol:
            res["failures"].append(_fail_seq(case[1], viol))
        return res
    if case[0] == "autochain":
        res["failures"] = run_autochain(case[1], res)
        res["sequences"] = 1
        return res
    if case[0] == "construct":
        _, first, L = case
        for n in range(1, L + 1):
            for rest in itertools.product(range(len(STEPS)), repeat=n - 1):
                seq = (first,) + rest
                viol, err = run_construction(seq)
                res["sequences"] += 1
                res["evaluations"] += 1
                if err:
                    res["seq_errors"] += 1
                if viol and not res["failures"]:
                    res["failures"].append(_fail_seq(seq, viol))
        if first == 0:
            res["samples"].append({"construction_sequence": [STEPS[i].__name__ for i in (0, 1, 2, 7)]})
        return res
    _, depth, ctxs, a, b = case
    for label, term, spec in itertools.islice(cat.catalogue(depth, None, ctxs), a, b):
        w, obj = make(term, "nocache")
        res["terms"] += 1
        if w.build_violations:
            res["failures"].append(_fail("ran-during-construction", label, term, {}, repr(w.build_violations)))
            continue
        r = Ref()
        seen = set()
        for o in cat.dictionaries(spec):
            v = check_eval(label, term, o, w, obj, r, res)
            if v and v[0] not in seen:
                seen.add(v[0])
                res["failures"].append(_fail(v[0], label, term, o, v[1]))
        if a == 0 and depth == 2 and len(res["samples"]) < 2:
            res["samples"].append({"label": label, "term": short(term, 300)})
    return res


def _fail(kind, label, term, o, d):
    return {"sig": f"C06|{kind}|{label}|{o!r}", "what": f"{kind}: {label} under {o!r}", "detail": d + " term=" + short(term, 500),
            "case": ("one", label, term, o)}


def _fail_seq(seq, viol):
    names = [STEPS[i].__name__ for i in seq]
    return {"sig": f"C06|ran-during-construction|{names}", "what": f"user callables ran while constructing: steps {names}", "detail": repr(viol), "case": ("seq", list(seq))}


def summarize(results, tier):
    tot = lambda k: sum(r.get(k, 0) for r in results)  # noqa
    samples = []
    for r in results:
        samples.extend(r.get("samples", []))
    return {
        "evaluations": tot("evaluations"),
        "distinct_nontrivial": tot("nontrivial"),
        "terms": tot("terms"),
        "construction_sequences": tot("sequences"),
        "construction_sequences_not_applicable_in_that_order": tot("seq_errors"),
        "samples": samples[:5],
        "exhaustive": True,
    }

RULE += ' Session 4: a body inside a coalesce member abandoned for a missing option must not run unless it is branch-choosing or needed elsewhere; implementation members that are bind / switch / case over option-free datasets in the construction sequences.'
