"""C13 - pipelines compose associatively; step parameters come from options and are keyed.

 * every sequence of steps (<= 4 quick / 5 thorough) over five atom kinds, in
   EVERY bracketing of '+', with the empty pipeline on both sides: transform,
   iteration order, (p+q) law, e >> p, keys/explain of option parameters;
 * every public helper of labrea.functions (found by reflection) against a table
   of the corresponding Python operation, each argument as a constant and as an
   Option, over a small operand universe.
"""
import copy
import functools
import itertools

from ..build import observe
from ..optspace import freeze
from ..ref import norm

ID = "C13"
LEVEL = "exploration"
TECHNIQUE = "exhaustive enumeration of step sequences x all bracketings against plain function composition; reflection-driven helper table against the Python operations"
RULE = (
    "atoms {decorated step with Option parameter P, plain callable, helper step with Option parameter Q, nested "
    "two-step pipeline, empty pipeline, the explicit Identity step}; all sequences of length 1..4 (quick) / 1..5 (thorough) x all binary "
    "bracketings of '+' (Catalan) x inputs {1, 'v'} x dictionaries {{}, {P:5}, {P:5,Q:6}}; helpers: every public "
    "name of labrea.functions, operands from a typed universe, each argument constant and Option-valued (two option "
    "values).  Non-trivial = pipelines with >= 2 steps / helper cases whose result depends on the operand order or "
    "on the option value."
)
ASSUMPTIONS = ["function-valued helper arguments are given as constants or as evaluatables (PartialApplication), not as JSON options"]

# -------------------------------------------------------------------------
# pipelines

ATOMS = ["S", "F", "H", "N", "E", "I"]


def make_atoms():
    from labrea import Option, pipeline_step
    from labrea.pipeline import Pipeline
    import labrea.functions as F

    @pipeline_step
    def s(x, p=Option("P", 0)):
        return ("s", x, p)

    def f(x):
        return ("f", x)

    def g(x, q):
        return ("g", x, q)

    h = F.partial(g, q=Option("Q", 0))

    @pipeline_step
    def n1(x, p=Option("P", 0)):
        return ("n1", x, p)

    def n2(x):
        return ("n2", x)

    from labrea.pipeline import Identity

    return {"S": s, "F": f, "H": h, "N": n1 + n2, "E": Pipeline(), "I": Identity}


def model_steps(seq, o):
    p = o.get("P", 0)
    q = o.get("Q", 0)
    out = []
    for a in seq:
        if a == "S":
            out.append(lambda x, p=p: ("s", x, p))
        elif a == "F":
            out.append(lambda x: ("f", x))
        elif a == "H":
            out.append(lambda x, q=q: ("g", x, q))
        elif a == "N":
            out.append(lambda x, p=p: ("n1", x, p))
            out.append(lambda x: ("n2", x))
    return out


def model_apply(seq, x, o):
    for fn in model_steps(seq, o):
        x = fn(x)
    return x


def bracketings(items):
    """All binary trees over the sequence; a tree is an item or (left, right)."""
    if len(items) == 1:
        yield items[0]
        return
    for i in range(1, len(items)):
        for l in bracketings(items[:i]):
            for r in bracketings(items[i:]):
                yield (l, r)


def build_tree(tree, atoms):
    from labrea.pipeline import Pipeline, PipelineStep

    if isinstance(tree, str):
        return atoms[tree]
    left = build_tree(tree[0], atoms)
    right = build_tree(tree[1], atoms)
    if not isinstance(left, (Pipeline, PipelineStep)):
        left = Pipeline() + left  # a plain callable / evaluatable becomes a step by being added to a pipeline
    return left + right


def as_pipeline(obj):
    from labrea.pipeline import Pipeline, PipelineStep

    if isinstance(obj, Pipeline):
        return obj
    return Pipeline() + obj


DICTS = [{}, {"P": 5}, {"P": 5, "Q": 6}, {"P": 1}, {"P": True}, {"P": 1, "N": {"K": 1}}, {"P": 1, "N": {"K": 2}}]  # consecutive equal-but-different dictionaries too
INPUTS = [1, "v"]


def check_sequence(seq, res):
    import labrea.functions as Fmod
    from labrea import Option
    from labrea.pipeline import Pipeline

    fails = []
    atoms = make_atoms()

    def fail(kind, d, tree):
        if not any(f["sig"].startswith(f"C13|pipe|{kind}|") for f in fails):
            fails.append({"sig": f"C13|pipe|{kind}|{seq}|{tree!r}", "what": f"{kind}: steps {seq} bracketed as {tree!r}", "detail": d, "case": ("seq", list(seq))})

    needs = set()
    if any(a in ("S", "N") for a in seq):
        needs.add("P")
    if "H" in seq:
        needs.add("Q")
    trees = list(bracketings(list(seq)))
    for tree in trees:
        res["evaluations"] += 1
        if sum(1 for a in seq if a != "E") >= 2:
            res["nontrivial"] += 1
        built = observe(None, lambda: as_pipeline(build_tree(tree, atoms)), materialise=False)
        if not built.ok:
            fail("composition-failed", repr(built), tree)
            continue
        p = built.value
        variants = [("plain", p), ("E+p", Pipeline() + p), ("p+E", p + Pipeline())]
        for vname, pv in variants:
            for o in DICTS:
                for x in INPUTS:
                    got = observe(None, lambda: pv.transform(x, copy.deepcopy(o)))
                    want = model_apply(seq, x, o)
                    if not got.ok or freeze(got.value) != freeze(want):
                        fail("transform-differs", f"[{vname}] x={x!r} o={o!r}: {got!r}, expected {want!r}", tree)
                    # e >> p
                    e = Option("IN", x)
                    got2 = observe(None, lambda: (e >> pv).evaluate(copy.deepcopy(o)))
                    if not got2.ok or freeze(got2.value) != freeze(want):
                        fail("rshift-differs", f"[{vname}] x={x!r} o={o!r}: {got2!r}, expected {want!r}", tree)
            # the function a pipeline evaluates to can be applied any number of times
            for o in DICTS[:2]:
                fn = observe(None, lambda: pv.evaluate(copy.deepcopy(o)), materialise=False)
                if fn.ok:
                    outs = [observe(None, lambda: fn.value(x)) for x in (1, 1, "v")]
                    wants = [model_apply(seq, x, o) for x in (1, 1, "v")]
                    if any(not g.ok or freeze(g.value) != freeze(w_) for g, w_ in zip(outs, wants)):
                        fail("evaluated-pipeline-not-reusable", f"[{vname}] o={o!r}: successive applications gave {outs!r}, expected {wants!r}", tree)
                mapped = observe(None, lambda: list(Fmod.map(pv).transform([1, "v", 1], copy.deepcopy(o))))
                wantm = [model_apply(seq, x, o) for x in (1, "v", 1)]
                if not mapped.ok or freeze(mapped.value) != freeze(wantm):
                    fail("pipeline-inside-map-helper", f"[{vname}] o={o!r}: {mapped!r}, expected {wantm!r}", tree)
            # iteration yields the steps in application order
            steps = observe(None, lambda: list(pv), materialise=False)
            ms = model_steps(seq, {"P": 5, "Q": 6})
            if not steps.ok:
                fail("iteration-failed", repr(steps), tree)
            else:
                outs = []
                for st in steps.value:
                    r = observe(None, lambda: st.evaluate({"P": 5, "Q": 6})("probe"))
                    outs.append(r.value if r.ok else repr(r))
                want_outs = [m("probe") for m in ms]
                # the empty pipeline is represented by one identity step; an identity is not a step of the model
                outs = [v for v in outs if v != "probe"]
                if freeze(outs) != freeze(want_outs):
                    fail("iteration-order", f"[{vname}] list(p) applies {outs!r}, expected {want_outs!r}", tree)
            # keys / explain of option-valued parameters
            ks = observe(None, lambda: pv.keys({"P": 5, "Q": 6}))
            # the parameters have defaults, so explain lists them once they are supplied
            ex = observe(None, lambda: pv.explain({"P": 5, "Q": 6}))
            if not ks.ok or not needs <= set(ks.value):
                fail("keys-omit-a-step-parameter", f"[{vname}] keys={ks!r} needs {sorted(needs)}", tree)
            if not ex.ok or not needs <= set(ex.value):
                fail("explain-omits-a-step-parameter", f"[{vname}] explain={ex!r} needs {sorted(needs)}", tree)
    # (p + q).transform(x) == q.transform(p.transform(x)) for every split, and associativity across bracketings
    for i in range(1, len(seq)):
        a = observe(None, lambda: as_pipeline(build_tree(next(bracketings(list(seq[:i]))), atoms)), materialise=False)
        b = observe(None, lambda: as_pipeline(build_tree(next(bracketings(list(seq[i:]))), atoms)), materialise=False)
        if not (a.ok and b.ok):
            continue
        for o in DICTS:
            for x in INPUTS:
                lhs = observe(None, lambda: (a.value + b.value).transform(x, o))
                rhs = observe(None, lambda: b.value.transform(a.value.transform(x, o), o))
                if not lhs.ok or not rhs.ok or freeze(lhs.value) != freeze(rhs.value):
                    fail("sum-law", f"split {seq[:i]}+{seq[i:]} x={x!r} o={o!r}: {lhs!r} vs {rhs!r}", (seq[:i], seq[i:]))
    return fails


# -------------------------------------------------------------------------
# helpers


class NC:
    """Operand whose arithmetic records the operand order."""

    def __init__(self, v):
        self.v = v

    def _b(self, op, other, swapped):
        o = other.v if isinstance(other, NC) else other
        return (op, o, self.v) if swapped else (op, self.v, o)

    def __add__(self, o):
        return self._b("add", o, False)

    def __radd__(self, o):
        return self._b("add", o, True)

    def __sub__(self, o):
        return self._b("sub", o, False)

    def __rsub__(self, o):
        return self._b("sub", o, True)

    def __mul__(self, o):
        return self._b("mul", o, False)

    def __rmul__(self, o):
        return self._b("mul", o, True)

    def __truediv__(self, o):
        return self._b("div", o, False)

    def __rtruediv__(self, o):
        return self._b("div", o, True)

    def __mod__(self, o):
        return self._b("mod", o, False)

    def __rmod__(self, o):
        return self._b("mod", o, True)

    def __neg__(self):
        return ("neg", self.v)

    def method(self, a, k=0):
        return ("method", self.v, a, k)

    @property
    def attr(self):
        return ("attr", self.v)


def inc(x):
    return ("inc", x)


def dup(x):
    return [x, ("dup", x)]


def pair(a, b):
    return ("pair", a, b)


def kvf(k, v):
    return (("k", k), ("v", v))


def is1(x):
    return x == 1


def isnot1(x):
    return x != 1


def key_is_a(k, v):
    return k == "a"


def red(a, b):
    return ("red", a, b)


def helper_rows():
    """name -> list of (label, builder(arg fn), inputs, python fn, option args).
    builder receives A(name, value): returns either the constant or Option(name)."""
    import labrea.functions as F
    from labrea import Option

    R = {}

    def row(name, build, inputs, py, opts=()):
        R.setdefault(name, []).append((build, inputs, py, opts))

    L = [[1, 2, 3], [], [2, 1, 1]]
    row("map", lambda A: F.map(inc), L, lambda x, a: list(map(inc, x)))
    row("map", lambda A: F.map(F.add(A("p", 10))), [[1, 2]], lambda x, a: [v + a["p"] for v in x], ("p",))
    row("filter", lambda A: F.filter(is1), L, lambda x, a: [v for v in x if v == 1])
    row("filter", lambda A: F.filter(F.gt(A("p", 1))), L, lambda x, a: [v for v in x if v > a["p"]], ("p",))
    row("reduce", lambda A: F.reduce(red), [[1, 2, 3], [7]], lambda x, a: functools.reduce(red, x))
    row("reduce", lambda A: F.reduce(red, A("p", 0)), [[1, 2, 3], []], lambda x, a: functools.reduce(red, x, a["p"]), ("p",))
    from collections.abc import Mapping as _Mapping
    from types import MappingProxyType as _MPT

    # any Mapping is keyword arguments (the mapping helpers themselves return read-only mappings)
    row("into", lambda A: F.into(pair), [(1, 2), [3, 4], {"a": 5, "b": 6}, _MPT({"a": 7, "b": 8}), _MPT({"b": 1, "a": 2})],
        lambda x, a: pair(**x) if isinstance(x, _Mapping) else pair(*x))
    row("flatten", lambda A: F.flatten, [[[1], [2, 3]], [[], []]], lambda x, a: [v for s in x for v in s])
    row("flatmap", lambda A: F.flatmap(dup), [[1, 2], []], lambda x, a: [v for e in x for v in dup(e)])
    D = [{"a": 1, "b": 2}, {}]
    row("map_items", lambda A: F.map_items(kvf), D, lambda x, a: dict(kvf(k, v) for k, v in x.items()))
    row("map_keys", lambda A: F.map_keys(inc), D, lambda x, a: {inc(k): v for k, v in x.items()})
    row("map_values", lambda A: F.map_values(inc), D, lambda x, a: {k: inc(v) for k, v in x.items()})
    row("filter_items", lambda A: F.filter_items(key_is_a), D, lambda x, a: {k: v for k, v in x.items() if k == "a"})
    row("filter_keys", lambda A: F.filter_keys(F.eq(A("p", "a"))), D, lambda x, a: {k: v for k, v in x.items() if k == a["p"]}, ("p",))
    row("filter_values", lambda A: F.filter_values(is1), D, lambda x, a: {k: v for k, v in x.items() if v == 1})
    row("concat", lambda A: F.concat(A("p", [8, 9])), L, lambda x, a: list(x) + list(a["p"]), ("p",))
    row("append", lambda A: F.append(A("p", 8)), L, lambda x, a: list(x) + [a["p"]], ("p",))
    S = [[1, 2, 3], [], [3, 4]]
    for nm, op in (("intersect", lambda x, c: set(x) & set(c)), ("union", lambda x, c: set(x) | set(c)),
                   ("difference", lambda x, c: set(x) - set(c)), ("symmetric_difference", lambda x, c: set(x) ^ set(c))):
        row(nm, lambda A, nm=nm: getattr(F, nm)(A("p", [2, 3, 5])), S, lambda x, a, op=op: op(x, a["p"]), ("p",))
    row("intersects", lambda A: F.intersects(A("p", [2, 5])), S, lambda x, a: bool(set(x) & set(a["p"])), ("p",))
    row("disjoint_from", lambda A: F.disjoint_from(A("p", [2, 5])), S, lambda x, a: not (set(x) & set(a["p"])), ("p",))
    row("get", lambda A: F.get(A("p", "a")), [{"a": 1, "b": 2}, {"b": 1, "a": 7}], lambda x, a: x[a["p"]], ("p",))
    row("get", lambda A: F.get(A("p", 1)), [[5, 6, 7]], lambda x, a: x[a["p"]], ("p",))
    row("get", lambda A: F.get(A("p", "zz"), A("q", "dflt")), [{"a": 1}], lambda x, a: x.get(a["p"], a["q"]), ("p", "q"))
    row("get_from", lambda A: F.get_from(A("p", {"a": 1, "b": 2})), ["a", "b"], lambda x, a: a["p"][x], ("p",))
    row("get_from", lambda A: F.get_from(A("p", [5, 6, 7])), [0, 2], lambda x, a: a["p"][x], ("p",))
    row("get_from", lambda A: F.get_from(A("p", {"a": 1}), A("q", "dflt")), ["a", "zz"], lambda x, a: a["p"].get(x, a["q"]), ("p", "q"))
    N = [NC(1), NC("s")]
    row("add", lambda A: F.add(A("p", 2)), N, lambda x, a: x + a["p"], ("p",))
    row("subtract", lambda A: F.subtract(A("p", 2)), N + [10], lambda x, a: x - a["p"], ("p",))
    row("multiply", lambda A: F.multiply(A("p", 2)), N, lambda x, a: x * a["p"], ("p",))
    row("left_multiply", lambda A: F.left_multiply(A("p", 2)), N, lambda x, a: a["p"] * x, ("p",))
    row("divide_by", lambda A: F.divide_by(A("p", 2)), N + [10], lambda x, a: x / a["p"], ("p",))
    row("divide_into", lambda A: F.divide_into(A("p", 2)), N + [10], lambda x, a: a["p"] / x, ("p",))
    row("negate", lambda A: F.negate, N + [3], lambda x, a: -x)
    row("modulo", lambda A: F.modulo(A("p", 3)), N + [10], lambda x, a: x % a["p"], ("p",))
    row("merge", lambda A: F.merge(A("p", {"b": 9, "c": 3})), D, lambda x, a: {**x, **a["p"]}, ("p",))
    row("length", lambda A: F.length, L + ["abc"], lambda x, a: len(x))
    row("instance_of", lambda A: F.instance_of(int, str), [1, "a", 1.5, None], lambda x, a: isinstance(x, (int, str)))
    row("all", lambda A: F.all(F.gt(A("p", 0)), F.lt(A("q", 3))), [0, 1, 2, 3], lambda x, a: x > a["p"] and x < a["q"], ("p", "q"))
    row("any", lambda A: F.any(F.lt(A("p", 1)), F.gt(A("q", 2))), [0, 1, 2, 3], lambda x, a: x < a["p"] or x > a["q"], ("p", "q"))
    # short-circuit: a later predicate is not even called once an earlier one has decided
    row("all", lambda A: F.all(F.instance_of(int), F.gt(A("p", 0))), [1, -1, "abc", None, [3]], lambda x, a: isinstance(x, int) and x > a["p"], ("p",))
    row("any", lambda A: F.any(F.is_none, F.lt(A("p", 0))), [None, -1, 1], lambda x, a: x is None or x < a["p"], ("p",))
    row("invert", lambda A: F.invert(is1), [1, 2], lambda x, a: not is1(x))
    row("invert", lambda A: F.invert(), [0, 1, "", "a"], lambda x, a: not x)
    for nm, op in (("eq", lambda x, v: x == v), ("ne", lambda x, v: x != v), ("gt", lambda x, v: x > v),
                   ("ge", lambda x, v: x >= v), ("lt", lambda x, v: x < v), ("le", lambda x, v: x <= v)):
        row(nm, lambda A, nm=nm: getattr(F, nm)(A("p", 2)), [1, 2, 3], lambda x, a, op=op: op(x, a["p"]), ("p",))
    row("has_remainder", lambda A: F.has_remainder(A("p", 3), A("q", 1)), [3, 4, 7, 5], lambda x, a: x % a["p"] == a["q"], ("p", "q"))
    Z = [-1, 0, 1, 2, 3]
    row("positive", lambda A: F.positive, Z, lambda x, a: x > 0)
    row("negative", lambda A: F.negative, Z, lambda x, a: x < 0)
    row("non_positive", lambda A: F.non_positive, Z, lambda x, a: x <= 0)
    row("non_negative", lambda A: F.non_negative, Z, lambda x, a: x >= 0)
    row("even", lambda A: F.even, Z, lambda x, a: x % 2 == 0)
    row("odd", lambda A: F.odd, Z, lambda x, a: x % 2 == 1)
    row("is_none", lambda A: F.is_none, [None, 0, ""], lambda x, a: x is None)
    row("is_not_none", lambda A: F.is_not_none, [None, 0, ""], lambda x, a: x is not None)
    row("is_in", lambda A: F.is_in(A("p", [1, 2])), [1, 3], lambda x, a: x in a["p"], ("p",))
    row("is_not_in", lambda A: F.is_not_in(A("p", [1, 2])), [1, 3], lambda x, a: x not in a["p"], ("p",))
    row("one_of", lambda A: F.one_of(A("p", 1), A("q", 2)), [1, 2, 3], lambda x, a: x in (a["p"], a["q"]), ("p", "q"))
    row("none_of", lambda A: F.none_of(A("p", 1), A("q", 2)), [1, 2, 3], lambda x, a: x not in (a["p"], a["q"]), ("p", "q"))
    row("contains", lambda A: F.contains(A("p", 1)), [[1, 2], [3], (1,)], lambda x, a: a["p"] in x, ("p",))
    row("does_not_contain", lambda A: F.does_not_contain(A("p", 1)), [[1, 2], [3]], lambda x, a: a["p"] not in x, ("p",))
    row("ensure", lambda A: F.ensure(is1), [1], lambda x, a: x)
    row("ensure", lambda A: F.ensure(F.gt(A("p", 0)), "msg"), [1, 5], lambda x, a: x if x > a["p"] else "<fail>", ("p",))
    row("get_attribute", lambda A: F.get_attribute(A("p", "attr")), [NC(4)], lambda x, a: getattr(x, a["p"]), ("p",))
    # only the method name may be an evaluatable; the arguments are documented as plain values
    row("call_method", lambda A: F.call_method(A("p", "method"), 1, k=2), [NC(4)], lambda x, a: getattr(x, a["p"])(1, k=2), ("p",))
    row("partial", lambda A: F.partial(pair, b=A("p", 2)), [1, "x"], lambda x, a: pair(x, b=a["p"]), ("p",))
    return R


ALT = {"p": {2: 1, 10: 20, 1: 2, 0: 5, 3: 2, 8: 7, "a": "b", "attr": "v", "zz": "a", "method": "method"}, "q": {1: 0, 2: 5, 3: 2, "dflt": "other"}}


def alt_value(name, v):
    if isinstance(v, list):
        return v[:-1] if v else [1]
    if isinstance(v, dict):
        d = dict(v)
        if d:
            k = sorted(d)[0]
            d[k] = ("alt", d[k]) if not isinstance(d[k], int) else d[k] + 100
        return d
    return ALT.get(name, {}).get(v, v)


def public_helpers():
    import labrea.functions as F
    from labrea.pipeline import PipelineStep

    out = []
    for n, v in vars(F).items():
        if n.startswith("_"):
            continue
        if isinstance(v, PipelineStep):
            out.append(n)
        elif callable(v) and getattr(v, "__module__", None) == F.__name__ and not isinstance(v, type):
            out.append(n)
    return sorted(out)


def _cp(x):
    try:
        return copy.deepcopy(x)
    except TypeError:  # read-only mapping views cannot be copied (and cannot be modified either)
        return x


def norm_result(v):
    from types import MappingProxyType

    if isinstance(v, MappingProxyType):
        v = dict(v)
    v = norm(v)
    if isinstance(v, tuple) and v and v[0] == "<iter>":
        return list(v[1])
    return v


def check_helper(name, res):
    from labrea import Option, Value

    fails = []
    rows = helper_rows().get(name, [])

    def fail(kind, d):
        if not any(f["sig"].startswith(f"C13|helper|{name}|{kind}") for f in fails):
            fails.append({"sig": f"C13|helper|{name}|{kind}|{d[:120]}", "what": f"helper {name}: {kind}", "detail": d, "case": ("helper", name)})

    for ri, (build, inputs, py, opts) in enumerate(rows):
        modes = ["const"] + (["option"] if opts else [])
        for mode in modes:
            defaults = {}

            def A(n, v, mode=mode):
                defaults[n] = v
                return copy.deepcopy(v) if mode == "const" else Option("H_" + n)

            step = build(A)
            settings = [dict(defaults)]
            if mode == "option":
                for n in opts:
                    s2 = dict(defaults)
                    s2[n] = alt_value(n, defaults[n])
                    if freeze(s2[n]) != freeze(defaults[n]):
                        settings.append(s2)
            for setting in settings:
                o = {} if mode == "const" else {"H_" + n: copy.deepcopy(v) for n, v in setting.items()}
                for x in inputs:
                    res["evaluations"] += 1
                    got = observe(None, lambda: norm_result((Value(x) >> step).evaluate(copy.deepcopy(o))))
                    try:
                        want = ("ok", norm_result(py(_cp(x) if not isinstance(x, NC) else x, setting)))
                    except Exception as e:  # noqa
                        want = ("fail", type(e).__name__)
                    if want[0] == "ok" and want[1] == "<fail>":
                        want = ("fail", "AssertionError")
                    if want[0] == "ok":
                        if not got.ok or freeze(got.value) != freeze(want[1]):
                            fail("wrong-result", f"row {ri} [{mode}] x={x!r} args={setting!r}: {got!r}, Python gives {want[1]!r}")
                    elif got.ok:
                        fail("should-fail", f"row {ri} [{mode}] x={x!r} args={setting!r}: {got!r}, Python raises {want[1]}")
                # the same helper as the function of a map over all inputs (twice over): one evaluated helper is
                # applied to many elements, each application computes the Python operation
                try:
                    wants = [norm_result(py(_cp(x) if not isinstance(x, NC) else x, setting)) for x in inputs]
                    if any(isinstance(w_, str) and w_ == "<fail>" for w_ in wants):
                        wants = None
                except Exception:  # noqa
                    wants = None
                if wants is not None and len(inputs) >= 2:
                    import labrea.functions as F

                    xs = [(_cp(x) if not isinstance(x, NC) else x) for x in inputs] * 2
                    res["evaluations"] += 1
                    gm = observe(None, lambda: [norm_result(v) for v in (Value(xs) >> F.map(step)).evaluate(copy.deepcopy(o))])
                    if not gm.ok or freeze(gm.value) != freeze(wants * 2):
                        fail("wrong-result-inside-map", f"row {ri} [{mode}] map over {xs!r} args={setting!r}: {gm!r}, Python gives {wants * 2!r}")
                if mode == "option":
                    res["nontrivial"] += 1
                    ks = observe(None, lambda: step.keys(copy.deepcopy(o)))
                    ex = observe(None, lambda: step.explain({}))
                    need = {"H_" + n for n in opts}
                    if not ks.ok or not need <= set(ks.value):
                        fail("keys-omit-an-option-argument", f"row {ri}: keys={ks!r} needs {sorted(need)}")
                    if not ex.ok or not need <= set(ex.value):
                        fail("explain-omits-an-option-argument", f"row {ri}: explain={ex!r} needs {sorted(need)}")
    return fails


# -------------------------------------------------------------------------


def cases(tier, seed):
    out = []
    L = 4 if tier == "quick" else 5
    seqs = []
    for n in range(1, L + 1):
        seqs.extend(itertools.product(ATOMS, repeat=n))
    if tier == "thorough":
        seqs.extend(itertools.product(["S", "F", "E"], repeat=6))
    for a in range(0, len(seqs), 20):
        out.append(("seqs", [list(s) for s in seqs[a : a + 20]]))
    for name in public_helpers():
        out.append(("helper", name))
    out.append(("rshift-callables",))
    out.append(("constant-params",))
    return out


class Acc:
    """a callable object with state: counts its own applications"""

    def __init__(self):
        self.seen = []

    def __call__(self, x):
        self.seen.append(x)
        return ("acc", len(self.seen), x)


def check_constant_params(res):
    """Step parameters are evaluated at evaluation time - constants included: a step that modifies a (mutable)
    constant parameter it was handed must not change what the next evaluation of the same long-lived pipeline
    computes.  Decorated steps with constant defaults, helper steps with constant operands, nested in pipelines."""
    import labrea.functions as F
    from labrea import Option, Value, pipeline_step
    from labrea.pipeline import Pipeline

    fails = []

    def collect(x, acc=[]):  # noqa: B006 - the point
        acc.append(x)
        return list(acc)

    def collect2(x, acc=[], tag=Option("T", "t")):  # noqa: B006
        acc.append((tag, x))
        return list(acc)

    def scribble(v):
        v.append("scribbled")
        return list(v)

    table = {"a": [1], "b": [2]}
    subjects = {
        "step with a constant list parameter": (lambda: pipeline_step(collect), lambda x: [x]),
        "step with a constant list and an option parameter": (lambda: pipeline_step(collect2), lambda x: [("t", x)]),
        "pipeline(step with a constant list parameter) + identity": (lambda: Pipeline() + pipeline_step(collect) + Pipeline(), lambda x: [x]),
        "get_from(constant table) + step that modifies what it gets": (lambda: F.get_from({"a": [1], "b": [2]}) + scribble, lambda x: table[x] + ["scribbled"]),
    }
    inputs = {"get_from(constant table) + step that modifies what it gets": ["a", "b", "a", "a"]}
    for name, (make_p, py) in subjects.items():
        p = make_p()  # ONE long-lived object
        xs = inputs.get(name, [1, 2, 1])
        for mode in ("rshift", "transform"):
            for x in xs:
                res["evaluations"] += 1
                if mode == "rshift":
                    got = observe(None, lambda: (Value(copy.deepcopy(x)) >> p).evaluate({}))
                else:
                    got = observe(None, lambda: p.transform(copy.deepcopy(x), {}))
                want = py(x)
                if not got.ok or freeze(got.value) != freeze(want):
                    if not any(f["sig"].startswith(f"C13|constant-params|{name}") for f in fails):
                        fails.append({"sig": f"C13|constant-params|{name}|{mode}", "what": f"{name}: a later evaluation of the same pipeline ({mode}) sees a constant parameter as an earlier evaluation left it",
                                      "detail": f"input {x!r}: {got!r}, a fresh evaluation of the parameters gives {want!r}", "case": ("constant-params",)})
    res["nontrivial"] += len(subjects)
    return fails


def check_rshift_callables(res):
    """e >> p against p.transform(e(o), o), literally, for right-hand sides that are not pipelines: a plain
    function, a stateful callable object, a partial application, a decorated step - each on ONE long-lived
    object pair, evaluated alternately several times."""
    import labrea.functions as F
    from labrea import Option
    from labrea.pipeline import Pipeline

    atoms = make_atoms()
    fails = []
    rhs_atoms = {"function": atoms["F"], "stateful-callable": Acc(), "partial-application": atoms["H"], "step": atoms["S"],
                 "bound-list-partial": functools.partial(lambda acc, x: (acc.append(x), ("seen", len(acc), x))[1], [])}
    for name, p in rhs_atoms.items():
        e = Option("IN", 1)
        lhs_expr = e >> p
        pipe = Pipeline() + p
        for rnd in range(3):
            for o in ({}, {"P": 5, "Q": 6}, {"IN": "v"}):
                res["evaluations"] += 1
                lhs = observe(None, lambda: lhs_expr.evaluate(copy.deepcopy(o)))
                rhs = observe(None, lambda: pipe.transform(e.evaluate(copy.deepcopy(o)), copy.deepcopy(o)))
                if lhs.ok != rhs.ok or (lhs.ok and freeze(lhs.value) != freeze(rhs.value)):
                    if not any(f["sig"].startswith(f"C13|rshift|{name}") for f in fails):
                        fails.append({"sig": f"C13|rshift|{name}|round {rnd}|{o!r}", "what": f"e >> p differs from p.transform(e(o), o) for p = {name} (round {rnd} on the same objects) under {o!r}",
                                      "detail": f"e >> p: {lhs!r}; p.transform(e(o), o): {rhs!r}", "case": ("rshift-callables",)})
    return fails


def run_case(case):
    res = {"failures": [], "evaluations": 0, "nontrivial": 0, "samples": [], "uncovered": []}
    if case[0] == "seq":
        res["failures"] = check_sequence(tuple(case[1]), res)
        return res
    if case[0] == "constant-params":
        res["failures"] = check_constant_params(res)
        return res
    if case[0] == "rshift-callables":
        res["failures"] = check_rshift_callables(res)
        return res
    if case[0] == "seqs":
        for s in case[1]:
            res["failures"].extend(check_sequence(tuple(s), res))
        if case[1][0] == ["S"]:
            res["samples"].append({"steps": ["S", "F", "N", "E"], "bracketings": [repr(b) for b in bracketings(["S", "F", "N", "E"])]})
        return res
    name = case[1]
    if name not in helper_rows():
        res["uncovered"].append(name)
        res["evaluations"] = 0
        return res
    res["failures"] = check_helper(name, res)
    if name == "subtract":
        res["samples"].append({"helper": name, "inputs": ["NC(1)", "NC('s')", 10], "argument": {"constant": 2, "option": "H_p in {2, 1}"}})
    return res


def summarize(results, tier):
    tot = lambda k: sum(r.get(k, 0) for r in results)  # noqa
    samples = []
    unc = []
    for r in results:
        samples.extend(r.get("samples", []))
        unc.extend(r.get("uncovered", []))
    return {
        "evaluations": tot("evaluations"),
        "distinct_nontrivial": tot("nontrivial"),
        "helpers_found_by_reflection": len(public_helpers()),
        "helpers_without_an_oracle_row": sorted(unc),
        "samples": samples[:5],
        "exhaustive": True,
    }

RULE += ' Session 4: every helper also as the function of F.map over all inputs twice over; steps with mutable constant parameters on one long-lived pipeline evaluated repeatedly.'
