"""Shared runner: environment pinning, process pool, evidence, findings, replays.

A check module provides
    ID, LEVEL, TECHNIQUE, RULE, ASSUMPTIONS
    def cases(tier, seed) -> list of picklable, literal-evaluable case objects
    def run_case(case)   -> dict with at least {"failures": [...]} and counters
    def summarize(results, tier) -> dict merged into evidence coverage (optional)
A failure is {"sig": str, "what": str, "case": literal, "detail": str}.
"""
import ast
import hashlib
import json
import multiprocessing as mp
import os
import sys
import time
import traceback

VERIF = os.path.dirname(os.path.dirname(os.path.abspath(__file__)))
REPO = os.environ.get("LABREA_REPO", "/repo")
EVIDENCE_DIR = os.path.join(VERIF, "evidence")
REPLAY_DIR = os.path.join(VERIF, "replays")
KNOWN = os.path.join(VERIF, "known_findings.json")
SCHEMA = "/root/.vp/EVIDENCE.schema.json"
SCHEMA_LOCAL = os.path.join(VERIF, "schemas", "EVIDENCE.schema.json")


def pin_environment(hashseed="0", module="labmc.cli"):
    """Re-exec once so that the hash seed is fixed and no bytecode is written;
    make sure the labrea that gets imported is /repo's working tree."""
    want = {"PYTHONHASHSEED": hashseed, "PYTHONDONTWRITEBYTECODE": "1", "LABREA_VERIF": "1"}
    if any(os.environ.get(k) != v for k, v in want.items()) and not os.environ.get("LABMC_PINNED"):
        env = dict(os.environ)
        env.update(want)
        env["LABMC_PINNED"] = "1"
        os.execve(sys.executable, [sys.executable, "-B", "-m", module] + sys.argv[1:], env)
    if REPO not in sys.path[:1]:
        sys.path.insert(0, REPO)
    import labrea  # noqa

    f = os.path.realpath(labrea.__file__)
    if not f.startswith(os.path.realpath(REPO) + os.sep):
        print(f"HARNESS-ERROR labrea imported from {f}, not {REPO}")
        sys.exit(2)


def workers_default():
    try:
        return int(os.environ.get("VERIF_WORKERS", "") or min(16, os.cpu_count() or 4))
    except ValueError:
        return 8


def _worker(args):
    modname, case = args
    mod = sys.modules.get(modname) or __import__(modname, fromlist=["x"])
    try:
        r = mod.run_case(case)
    except BaseException as e:  # harness fault, not a verdict - unless the library itself raised
        tb = traceback.extract_tb(e.__traceback__)
        last = os.path.realpath(tb[-1].filename) if tb else ""
        if isinstance(e, Exception) and last.startswith(os.path.realpath(REPO) + os.sep):
            # an exception raised by library code outside any observed operation (while a legal expression
            # was being constructed, or in a helper the harness calls directly): on the unchanged tree this
            # never happens (it would be a harness error); it is reported as a violation, not as a harness fault
            return {
                "failures": [
                    {
                        "sig": f"{getattr(mod, 'ID', '?')}|library-raised-outside-an-observed-operation|{type(e).__name__}|{case_hash(case)}",
                        "what": f"the library raised {type(e).__name__}: {str(e)[:160]} at {os.path.relpath(last, REPO)}:{tb[-1].lineno} while the harness was constructing / preparing a legal case",
                        "detail": "".join(traceback.format_list(tb[-4:]))[-1500:],
                        "case": case,
                    }
                ]
            }
        r = {
            "failures": [],
            "harness_errors": [
                {"case": case, "error": f"{type(e).__name__}: {e}", "tb": traceback.format_exc()[-2000:]}
            ],
        }
    return r


def parallel_map(mod, cases, workers=None, chunksize=None):
    workers = workers or workers_default()
    items = [(mod.__name__, c) for c in cases]
    if workers <= 1 or len(items) <= 1:
        return [_worker(i) for i in items]
    ctx = mp.get_context("fork")
    if chunksize is None:
        chunksize = getattr(mod, "CHUNK", None) or max(1, min(16, len(items) // (workers * 32) or 1))
    with ctx.Pool(workers) as pool:
        if os.environ.get("VERIF_STOP_FIRST"):
            # tooling only (tools/seed_eval.py): stop at the first new failure; the run is then NOT a
            # coverage statement and writes no evidence
            known = {f["sig"] for f in load_known().get("findings", [])}
            out = []
            for r in pool.imap_unordered(_worker, items, chunksize=chunksize):
                out.append(r)
                if any(fl["sig"] not in known for fl in r.get("failures", [])):
                    pool.terminate()
                    break
            return out
        return pool.map(_worker, items, chunksize=chunksize)


def load_known():
    try:
        with open(KNOWN) as f:
            return json.load(f)
    except FileNotFoundError:
        return {"findings": [], "fixed": []}


def case_hash(case):
    return hashlib.sha1(repr(case).encode()).hexdigest()[:12]


def write_replay(pid, failure):
    os.makedirs(REPLAY_DIR, exist_ok=True)
    h = case_hash((failure.get("sig"), failure.get("case")))
    path = os.path.join(REPLAY_DIR, f"{pid}-{h}.json")
    doc = {
        "property": pid,
        "sig": failure.get("sig"),
        "what": failure.get("what"),
        "detail": failure.get("detail"),
        "case_repr": repr(failure.get("case")),
        "replay": f"bin/check {pid} --replay {path}",
    }
    with open(path, "w") as f:
        json.dump(doc, f, indent=1, default=repr)
    # the same case as a plain script: rebuilds fresh objects and re-executes just this case (no enumeration,
    # no search); exit status 1 if it still fails
    try:
        with open(path[:-5] + ".py", "w") as f:
            f.write(
                "#!/venv/bin/python\n"
                f"# Stand-alone replay of one {pid} case: {str(failure.get('what'))[:200]!r}\n"
                "import os, sys\n"
                f"sys.path[:0] = [os.environ.get('LABREA_REPO', '/repo'), {VERIF!r}]\n"
                f"from labmc.checks import {pid.lower()} as check\n"
                f"case = {failure.get('case')!r}\n"
                "result = check.run_case(case)\n"
                "for fl in result.get('failures', []):\n"
                "    print(fl['what']); print('   ', fl.get('detail', ''))\n"
                "sys.exit(1 if result.get('failures') else 0)\n"
            )
    except OSError:
        pass
    return path


def load_replay(path):
    with open(path) as f:
        doc = json.load(f)
    return ast.literal_eval(doc["case_repr"]), doc


def _schema():
    for p in (SCHEMA, SCHEMA_LOCAL):
        if os.path.exists(p):
            with open(p) as f:
                return json.load(f)
    return None


def write_evidence(pid, doc):
    os.makedirs(EVIDENCE_DIR, exist_ok=True)
    path = os.path.join(EVIDENCE_DIR, f"{pid}.json")
    sch = _schema()
    if sch is not None:
        try:
            import jsonschema

            jsonschema.validate(doc, sch)
        except ImportError:
            pass
    tmp = path + ".tmp"
    with open(tmp, "w") as f:
        json.dump(doc, f, indent=1, default=repr)
    os.replace(tmp, path)
    return path


def merge_counts(results, keys):
    out = {k: 0 for k in keys}
    for r in results:
        for k in keys:
            out[k] += r.get(k, 0)
    return out


def main(mod, argv=None):
    import argparse

    ap = argparse.ArgumentParser(prog=f"check {mod.ID}")
    ap.add_argument("--tier", default=os.environ.get("VERIF_TIER", "quick"), choices=["quick", "thorough"])
    ap.add_argument("--replay", default=None)
    ap.add_argument("--workers", type=int, default=None)
    ap.add_argument("--max-report", type=int, default=25)
    args = ap.parse_args(argv)
    try:
        seed = int(os.environ.get("VERIF_SEED", "0") or 0)
    except ValueError:
        seed = 0
    pid = mod.ID

    if args.replay:
        case, doc = load_replay(args.replay)
        r = mod.run_case(case)
        fails = r.get("failures", [])
        print(f"replay {args.replay}: {len(fails)} failure(s)")
        for fl in fails:
            print(f"  {fl['sig']}: {fl['what']}\n    {fl.get('detail', '')}")
        if r.get("harness_errors"):
            print("HARNESS-ERROR", r["harness_errors"])
            return 2
        return 1 if fails else 0

    t0 = time.time()
    cases = mod.cases(args.tier, seed)
    results = parallel_map(mod, cases, args.workers)
    wall = time.time() - t0

    known = load_known()
    known_sigs = {
        f["sig"]: f for f in known.get("findings", []) if f.get("property") == pid and f.get("status", "open") == "open"
    }
    failures = []
    harness_errors = []
    for r in results:
        failures.extend(r.get("failures", []))
        harness_errors.extend(r.get("harness_errors", []))

    seen_known = {}
    new = {}
    for fl in failures:
        if fl["sig"] in known_sigs:
            seen_known.setdefault(fl["sig"], fl)
        else:
            new.setdefault(fl["sig"], fl)

    cov = mod.summarize(results, args.tier) if hasattr(mod, "summarize") else {}
    cov.setdefault("rule", getattr(mod, "RULE", ""))
    cov.setdefault("exhaustive", True)
    cov["cases"] = len(cases)
    cov["harness_errors"] = len(harness_errors)
    cov["known_findings_reproduced"] = sorted(seen_known)
    doc = {
        "property_id": pid,
        "tier": args.tier,
        "seed": seed,
        "level": mod.LEVEL,
        "coverage": cov,
        "assumptions": list(getattr(mod, "ASSUMPTIONS", [])),
        "wall_s": round(time.time() - t0, 3),
        "violations": len(new),
        "technique": getattr(mod, "TECHNIQUE", ""),
    }
    if REPO == "/repo" and not os.environ.get("VERIF_STOP_FIRST"):
        write_evidence(pid, doc)  # evidence describes /repo only, never a scratch tree

    summ = {k: v for k, v in cov.items() if isinstance(v, (int, float, bool))}
    print(f"[{pid}] tier={args.tier} seed={seed} cases={len(cases)} wall={wall:.1f}s {summ}")
    for sig, fl in sorted(seen_known.items()):
        print(f"KNOWN-FINDING: property={pid} {known_sigs[sig].get('what', fl['what'])} [{sig}]")
    rc = 0
    if harness_errors:
        for he in harness_errors[:5]:
            print(f"HARNESS-ERROR {he['error']} case={he['case']!r}\n{he.get('tb', '')}")
        rc = 2
    if new:
        for i, (sig, fl) in enumerate(sorted(new.items())):
            if i >= args.max_report:
                print(f"... {len(new) - i} more distinct violations not listed")
                break
            path = write_replay(pid, fl)
            print(f"VIOLATION property={pid} replay={path}")
            print(f"  what: {fl['what']}\n  sig: {sig}\n  detail: {fl.get('detail', '')}")
        rc = 1
    return rc
