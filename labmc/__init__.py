"""labmc: explicit-state / exhaustive-enumeration checks for 8451/labrea."""
