"""Reference semantics: a memo-free, eager interpreter over terms.

Written from the property statements and the documentation; never touches
labrea objects, confectioner, or any cache.  ``Ref(faults).run(term, o)``
returns an Outcome; the Ref instance afterwards holds
  .log    ordered events of the *selected* path and of abandoned trials
          [(kind, name, abandoned?)...]
  .reads  {(dotted key, present?)} every option key consulted
"""
import copy
import functools

from .optspace import Absent, freeze, lookup, overlay, set_path
from .terms import dsprops


class RefFail(Exception):
    def __init__(self, kind, key=None):
        super().__init__(kind, key)
        self.kind = kind
        self.key = key


class Outcome:
    __slots__ = ("ok", "value", "kind", "key")

    def __init__(self, ok, value=None, kind=None, key=None):
        self.ok, self.value, self.kind, self.key = ok, value, kind, key

    def __repr__(self):
        return f"Ok({self.value!r})" if self.ok else f"Fail({self.kind}, {self.key!r})"

    def canon(self):
        return ("ok", freeze(self.value)) if self.ok else ("fail", self.kind, self.key)


class IterVal:
    """What a lazy iterable evaluates to, after materialisation."""

    def __init__(self, items):
        self.items = list(items)

    def __iter__(self):
        return iter(self.items)


def norm(v, _depth=0):
    """Comparison form of a value: iterators materialised, callables opaque."""
    import types

    if isinstance(v, IterVal):
        return ("<iter>", [norm(x) for x in v.items])
    if isinstance(v, (types.GeneratorType, map, filter, zip)) or (
        hasattr(v, "__next__") and hasattr(v, "__iter__")
    ):
        return ("<iter>", [norm(x) for x in v])
    if isinstance(v, dict):
        return {norm_key(k): norm(x) for k, x in v.items()}
    if isinstance(v, list):
        return [norm(x) for x in v]
    if isinstance(v, tuple):
        return tuple(norm(x) for x in v)
    if isinstance(v, (set, frozenset)):
        return frozenset(norm(x) for x in v)
    if callable(v) and not isinstance(v, type):
        return "<callable>"
    return v


def peek(v):
    """Like norm, but never consumes an iterator (it is replaced by a marker)."""
    import types

    if isinstance(v, (types.GeneratorType, map, filter, zip)) or (hasattr(v, "__next__") and hasattr(v, "__iter__")):
        return "<lazy>"
    if isinstance(v, dict):
        return {k: peek(x) for k, x in v.items()}
    if isinstance(v, list):
        return [peek(x) for x in v]
    if isinstance(v, tuple):
        return tuple(peek(x) for x in v)
    if isinstance(v, (set, frozenset)):
        return frozenset(peek(x) for x in v)
    if callable(v) and not isinstance(v, type):
        return "<callable>"
    return v


def norm_key(k):
    return k


# --------------------------------------------------------------------------
# user functions (shared by build.py so that both sides compute the same thing)


def is_pred(name):
    return name.startswith("p_")


def pred_fn(name):
    """p_true, p_false, p_eq:<literal>, p_ne:<literal>, p_in:<literal list>,
    p_gt:<n>, p_isstr, p_isint"""
    import ast

    if name == "p_true":
        return lambda x: True
    if name == "p_false":
        return lambda x: False
    if name == "p_same":
        return lambda a, b: freeze(a) == freeze(b)
    if name == "p_isstr":
        return lambda x: isinstance(x, str)
    if name == "p_isint":
        return lambda x: isinstance(x, int) and not isinstance(x, bool)
    op, _, arg = name[2:].partition(":")
    c = ast.literal_eval(arg)
    if op == "eq":
        return lambda x: freeze(x) == freeze(c)
    if op == "ne":
        return lambda x: freeze(x) != freeze(c)
    if op == "in":
        return lambda x: any(freeze(x) == freeze(y) for y in c)
    if op == "gt":
        return lambda x: isinstance(x, (int, float)) and not isinstance(x, bool) and x > c
    raise ValueError(name)


def tag_fn(name):
    """Every non-predicate user function is a tagger: injective, non-commutative,
    records its name and all its arguments in order."""
    if name == "f_list":
        return lambda x: list(x)
    if name == "f_tuple":
        return lambda x: tuple(x)
    if name == "f_identity":
        return lambda x: x
    if name in ("f_mutate", "f_mutate_all"):
        def mutate(x):
            before = copy.deepcopy(x)
            stack = [x]
            while stack:
                v = stack.pop()
                if isinstance(v, dict):
                    stack.extend(v.values())
                    v["__scribble__"] = 1
                elif isinstance(v, list):
                    stack.extend(v)
                    v.append("__scribble__")
                elif isinstance(v, tuple):
                    stack.extend(v)
            return ("mut", before)

        return mutate
    if name == "f_call":
        # receives a function (an evaluated pipeline / partial application) and calls it
        return lambda p, x: ("called", p(x))
    if name.startswith("f_const:"):
        import ast

        c = ast.literal_eval(name[len("f_const:"):])
        return lambda *a, **k: copy.deepcopy(c)

    def f(*args, **kw):
        return (name,) + tuple(args) + tuple(("kw", k, v) for k, v in kw.items())

    return f


def user_fn(name):
    return pred_fn(name) if is_pred(name) else tag_fn(name)


def fault_hits(faults, kind, name, args):
    """faults: {(kind, name): (exc_name, when)}; when None = always, otherwise
    the call raises iff its first argument equals ``when`` (type-sensitive)."""
    if not faults:
        return None
    spec = faults.get((kind, name))
    if spec is None:
        return None
    exc, when = spec
    if when is None:
        return exc
    if args and freeze(args[0]) == freeze(when):
        return exc
    return None


# --------------------------------------------------------------------------
# template language (own scanner, see DESIGN section 5)


def scan_refs(s):
    """Ordered list of (start, end, key) for every unescaped {key}."""
    out = []
    i = 0
    n = len(s)
    while i < n:
        c = s[i]
        if c == "\\" and i + 1 < n and s[i + 1] in "{}":
            i += 2
            continue
        if c == "{":
            j = i + 1
            ok = True
            while j < n and s[j] != "}":
                if s[j] == "\\":
                    ok = False
                    break
                j += 1
            if ok and j < n:
                out.append((i, j + 1, s[i + 1 : j]))
                i = j + 1
                continue
        i += 1
    return out


def unescape(s):
    return s.replace("\\{", "{").replace("\\}", "}")


class Ref:
    def __init__(self, faults=None, value_refs=None):
        self.faults = faults or {}
        # value_refs: {key: {keys referenced by templated values of key in the alphabet}}
        self.value_refs = value_refs or {}
        self.body_events = []  # (dataset name, frozen projection of the effective options it saw)
        self.effect_events = []  # (effect name, normalised value)
        self._mention_cache = {}
        self.log = []
        self.reads = set()
        self.read_log = []  # ordered (key, present)
        self.abandoned_reads = set()  # reads made inside coalesce members / dispatches that then failed
        self.abandoned_by_origin = {}
        self.optional_absent = set()
        self.before = set()
        self.structural = set()
        self.struct_failed = False
        self._struct = 0
        self._trial = 0
        self._trial_marks = []
        self._defs = {}

    # -- public ----------------------------------------------------------
    def run(self, term, o):
        self.log = []
        self.reads = set()
        self.read_log = []
        self.abandoned_reads = set()
        self.needless = set()  # (kind, name) events inside coalesce members abandoned for a missing option
        self.abandoned_by_origin = {}
        self.optional_absent = set()
        self.body_events = []
        self.effect_events = []
        self.before = set()  # ((kind, name) produced earlier, (kind, name) of its consumer)
        self.structural = set()  # (kind, name) events that happened while choosing a branch
        self.struct_failed = False  # a branch could not be chosen (dispatch / bind source / iterable failed)
        self._struct = 0
        self._trial = 0
        self._trial_marks = []
        from .terms import walk as _walk

        self._named = {n[1]: n for n in _walk(term) if n[0] == "ds"}
        try:
            v = self.ev(term, copy.deepcopy(o))
            # lazy iterables (Iter, Map) are materialised here, exactly like the
            # observation of the implementation materialises them
            return Outcome(True, norm(v))
        except RefFail as e:
            return Outcome(False, kind=e.kind, key=e.key)

    def must(self):
        return [(k, n) for (k, n, ab) in self.log if not ab]

    def may(self):
        return [(k, n) for (k, n, ab) in self.log]

    # -- helpers ---------------------------------------------------------
    def _event(self, kind, name):
        self.log.append((kind, name, self._trial > 0))
        if self._struct > 0:
            self.structural.add((kind, name))

    def _nobranch(self):
        self.struct_failed = True  # no branch applies: "a branch cannot be chosen"
        return RefFail("nobranch", None)

    def _structural(self, thunk):
        """Evaluate something whose value is needed to choose a branch."""
        self._struct += 1
        try:
            return thunk()
        except RefFail:
            self.struct_failed = True
            raise
        finally:
            self._struct -= 1

    def _call(self, kind, name, f, args, kw=None):
        self._event(kind, name)
        exc = fault_hits(self.faults, kind, name, args)
        if exc:
            raise RefFail("user", (kind, name))
        return f(*args, **(kw or {}))

    def _lookup(self, o, key):
        try:
            v = lookup(o, key)
            self.reads.add((key, True))
            self.read_log.append((key, True))
            return v
        except Absent:
            self.reads.add((key, False))
            self.read_log.append((key, False))
            raise

    def resolve(self, v, o):
        if isinstance(v, dict):
            return {k: self.resolve(x, o) for k, x in v.items()}
        if isinstance(v, list):
            return [self.resolve(x, o) for x in v]
        if isinstance(v, str):
            refs = scan_refs(v)
            keys = []
            for _, _, k in refs:
                if k not in keys:
                    keys.append(k)
            if len(keys) == 1 and v == "{" + keys[0] + "}":
                try:
                    raw = self._lookup(o, keys[0])
                except Absent:
                    raise RefFail("missing", keys[0])
                return self.resolve(raw, o)
            if keys:
                out = []
                pos = 0
                for a, b, k in refs:
                    try:
                        raw = self._lookup(o, k)
                    except Absent:
                        raise RefFail("missing", k)
                    out.append(v[pos:a])
                    out.append(str(raw))
                    pos = b
                out.append(v[pos:])
                return self.resolve("".join(out), o)
            return unescape(v)
        return v

    def _trial_enter(self, origin="coalesce"):
        self._trial += 1
        self._trial_marks.append((len(self.read_log), origin))

    def _trial_exit(self, start, success):
        self._trial -= 1
        mark, origin = self._trial_marks.pop()
        if not success:
            self.abandoned_reads.update(self.read_log[mark:])
            self.abandoned_by_origin.setdefault(origin, set()).update(self.read_log[mark:])
        if success and self._trial == 0:
            # events of a successful member are on the selected path
            for i in range(start, len(self.log)):
                k, n, _ = self.log[i]
                self.log[i] = (k, n, False)

    # -- evaluation ------------------------------------------------------
    def ev(self, t, o):
        return getattr(self, "ev_" + t[0])(t, o)

    def ev_val(self, t, o):
        return copy.deepcopy(t[1])

    ev_raw = ev_val

    def ev_fn(self, t, o):
        name = t[1]
        f = user_fn(name)
        kind = "pred" if is_pred(name) else "fn"
        return lambda *a, **k: self._call(kind, name, f, a, k)

    def _domain(self, dom, value, o):
        if dom[0] == "vals":
            ok = any(freeze(value) == freeze(x) or value == x for x in dom[1])
        elif dom[0] == "pred":
            ok = self.ev(("fn", dom[1]), o)(value)
        else:
            d = self.ev(dom[1], o)
            if callable(d):
                ok = d(value)
            else:
                ok = value in d
        if not ok:
            raise RefFail("domain", None)

    def _option(self, key, default, o, dom=None):
        try:
            raw = self._lookup(o, key)
        except Absent:
            if default is None:
                raise RefFail("missing", key)
            self.optional_absent.add(key)  # absent but defaulted: optional, not "still to be supplied"
            value = default()
        else:
            value = self.resolve(raw, o)
        if dom is not None:
            self._domain(dom, value, o)
        return value

    def ev_opt(self, t, o):
        d = (lambda: self.ev(t[2], o)) if len(t) > 2 else None
        return self._option(t[1], d, o)

    def ev_optf(self, t, o):
        def d():
            self._event("factory", t[1])
            return copy.deepcopy(t[2])

        return self._option(t[1], d, o)

    def ev_optdom(self, t, o):
        d = (lambda: self.ev(t[2], o)) if t[2] is not None else None
        return self._option(t[1], d, o, dom=t[3])

    def ev_all(self, t, o):
        return self.resolve(o, o)

    def ev_tmpl(self, t, o):
        params = {f":{k}:": self.ev(x, o) for k, x in t[2].items()}
        mixed = dict(o)
        mixed.update(params)
        return str(self.resolve(t[1], mixed))

    @staticmethod
    def _first_fn(f):
        while f[0] == "pipe" and f[1]:
            f = f[1][0]
        if f[0] == "fn":
            return ("pred" if is_pred(f[1]) else "fn", f[1])
        if f[0] in ("step", "pa"):
            return ("pred" if is_pred(f[1]) else "fn", f[1])
        return None

    def ev_apply(self, t, o):
        i0 = len(self.log)
        v = self.ev(t[1], o)
        consumer = self._first_fn(t[2])
        if consumer is not None:
            for k, n, _ in self.log[i0:]:
                self.before.add(((k, n), consumer))
        f = self.ev(t[2], o)
        return f(v)

    def ev_bind(self, t, o):
        v = self._structural(lambda: self.ev(t[1], o))
        for k, x in t[2]:
            if freeze(k) == freeze(v):
                return self.ev(x, o)
        if t[3] is None:
            raise RefFail("user", ("binder", None))
        return self.ev(t[3], o)

    def _switch(self, d, table, dflt, o):
        start = len(self.log)
        self._trial_enter("dispatch")
        try:
            if isinstance(d, tuple) and d[0] == "optkey":
                k = self._structural(lambda: self._option(d[1], None, o))
            else:
                k = self._structural(lambda: self.ev(d, o))
        except RefFail:
            self._trial_exit(start, False)
            if dflt is None:
                raise
            return self.ev(dflt, o)
        self._trial_exit(start, True)
        lut = {}
        for a, x in table:
            lut[a] = x
        if k in lut:
            return self.ev(lut[k], o)
        if dflt is None:
            raise self._nobranch()
        return self.ev(dflt, o)

    def ev_switch(self, t, o):
        return self._switch(t[1], t[2], t[3], o)

    ev_overloaded = ev_switch

    def ev_case(self, t, o):
        v = self._structural(lambda: self.ev(t[1], o))
        for c, x in t[2]:
            p = self._structural(lambda: self.ev(c, o))
            if self._structural(lambda: p(v)):
                return self.ev(x, o)
        if t[3] is None:
            raise self._nobranch()
        return self.ev(t[3], o)

    def ev_coalesce(self, t, o):
        last = None
        for m in t[1]:
            start = len(self.log)
            self._trial_enter()
            try:
                # "can be evaluated" includes the elements of a lazy iterable:
                # materialise a trial copy, then produce the value afresh
                norm(self.ev(m, o))
            except RefFail as e:
                if e.kind == "missing":
                    # the member cannot be evaluated because an option is absent: nothing it contains is needed,
                    # and finding that out needs no body other than branch-choosing ones
                    self.needless.update((k, n) for (k, n, _) in self.log[start:] if (k, n) not in self.structural)
                self._trial_exit(start, False)
                last = e
                continue
            self._trial_exit(start, True)
            return self.ev(m, o)
        raise last

    def ev_iter(self, t, o):
        # Iter is lazy "like the built-in map": members are evaluated on iteration
        return (self.ev(x, o) for x in t[1])

    def ev_list(self, t, o):
        return [self.ev(x, o) for x in t[1]]

    def ev_tuple(self, t, o):
        return tuple(self.ev(x, o) for x in t[1])

    def ev_set(self, t, o):
        return set(self.ev(x, o) for x in t[1])

    def ev_dict(self, t, o):
        return {k: self.ev(x, o) for k, x in t[1]}

    def ev_map(self, t, o):
        import itertools

        keys = [k for k, _ in t[2]]
        lists = []
        for _, x in t[2]:
            v = self._structural(lambda: self.ev(x, o))
            try:
                lists.append(self._structural(lambda: list(v)))
            except TypeError:
                self.struct_failed = True
                raise RefFail("type", None)
        combos = list(itertools.product(*lists))

        def gen():
            for combo in combos:
                assign = {}
                for k, v in zip(keys, combo):
                    set_path(assign, k, copy.deepcopy(v))
                label = {k: copy.deepcopy(v) for k, v in zip(keys, combo)}
                yield (label, self.ev(t[1], overlay(o, assign)))

        return gen()

    def ev_mapvalues(self, t, o):
        return (item[1] for item in self.ev_map(t, o))

    def ev_fa(self, t, o):
        f = self.ev(("fn", t[1]), o)
        args = [self.ev(x, o) for x in t[2]]
        kw = {k: self.ev(x, o) for k, x in t[3].items()}
        return f(*args, **kw)

    def ev_pa(self, t, o):
        f = self.ev(("fn", t[1]), o)
        args = [self.ev(x, o) for x in t[2]]
        kw = {k: self.ev(x, o) for k, x in t[3].items()}
        return functools.partial(f, *args, **kw)

    def ev_falift(self, t, o):
        f = self.ev(("fn", t[1]), o)
        kw = {k: self.ev(x, o) for k, x in t[2].items()}
        return f(kw.get("a", ("sig", "a")), kw.get("b", ("sig", "b")), kw.get("c", ("sig", "c")))

    def ev_palift(self, t, o):
        f = self.ev(("fn", t[1]), o)
        kw = {k: self.ev(x, o) for k, x in t[2].items()}
        return lambda x: f(x, kw.get("b", ("sig", "b")), kw.get("c", ("sig", "c")))

    def ev_step(self, t, o):
        f = self.ev(("fn", t[1]), o)
        kw = {k: self.ev(x, o) for k, x in t[2].items()}
        return functools.partial(f, **kw)

    def ev_pipe(self, t, o):
        # Pipeline.evaluate evaluates the tail first, then the rest
        fs = [None] * len(t[1])
        for i in range(len(t[1]) - 1, -1, -1):
            fs[i] = self.ev(t[1][i], o)

        def run(x):
            for f in fs:
                x = f(x)
            return x

        return run

    def ev_withopt(self, t, o):
        P = t[2]
        return self.ev(t[1], overlay(o, P) if t[3] else overlay(P, o))

    def ev_cached(self, t, o):
        return self.ev(t[1], o)

    def ev_logged(self, t, o):
        return self.ev(t[1], o)

    def ev_computation(self, t, o):
        v = self.ev(t[1], o)
        if not self._effects_disabled(o):
            for e in t[2]:
                self.effect_events.append((e, peek(v)))
                self._call("effect", e, lambda x: None, (v,))
        return v

    def _effects_disabled(self, o):
        try:
            return bool(lookup(o, "LABREA.EFFECTS.DISABLED"))
        except Absent:
            return False

    def _dataset(self, t, o, extra_P=None, extra_D=None, keep_callback=True):
        name = t[1]
        p = dsprops(t)
        D = p["default_options"] or {}
        P = p["options"] or {}
        if extra_D:
            D = overlay(D, extra_D)
        if extra_P:
            P = overlay(extra_P, P)  # options already pre-set on the dataset win
        o1 = overlay(D, o) if D else o
        o2 = overlay(o1, P) if P else o1

        self.body_events.append((name, self._projection(t, o2)))

        def body():
            if p["definition"] is not None:
                return self.ev(p["definition"], o2)  # defined from an expression: no body function runs
            i0 = len(self.log)
            args = [self.ev(x, o2) for x in p["params"]]
            for k, n, _ in self.log[i0:]:
                self.before.add(((k, n), ("body", name)))
            return self._call("body", name, tag_fn(name), tuple(args))

        class _B:
            pass

        if p["dispatch"] is not None:
            v = self._switch_ds(p, body, o2)
        else:
            if p["abstract"]:
                raise self._nobranch()
            v = body()
        if p["callback"] is not None and keep_callback:
            cb = self.ev(p["callback"], o2)
            v = cb(v)
        if not self._effects_disabled(o2):
            for e in p["effects"]:
                if isinstance(e, str) and e.startswith("log:"):
                    continue  # a LogEffect: no user callable runs
                if not isinstance(e, str):
                    self._option(e[2], None, o2)  # the effect's own option parameter
                    e = e[1]
                self.effect_events.append((e, peek(v)))
                self._call("effect", e, lambda x: None, (v,))
        return v

    def _mentioned(self, t):
        from .terms import mentioned_keys

        k = repr(t)
        if k not in self._mention_cache:
            keys = set(mentioned_keys(t))
            # sections: a mentioned key also covers its sub-keys and parents in the alphabet
            changed = True
            while changed:
                changed = False
                for a in list(keys):
                    for b in self.value_refs.get(a, ()):
                        if b not in keys:
                            keys.add(b)
                            changed = True
            self._mention_cache[k] = keys
        return self._mention_cache[k]

    def _projection(self, t, o):
        """The effective options a dataset saw, restricted to the keys its sub-graph mentions
        (a static over-approximation of 'the options it depends on').  Below a wrapper that pre-sets
        options, a mentioned key whose value is supplied ENTIRELY by the pre-set dictionary (the caller's
        entries for it, if any, are all overridden) counts with the pre-set value: the caller's value for
        it cannot matter.  A key the caller still contributes to counts with the caller's whole value."""
        from .terms import walk

        if any(n[0] == "all" for n in walk(t)):
            return repr(freeze(o))  # AllOptions depends on the whole dictionary
        acc = set()
        for c in self._ds_parts(t):
            self._proj(c, o, [], acc)
        self._proj_keys(self._node_keys(t), o, [], acc)
        return repr(sorted(acc, key=repr))

    @staticmethod
    def _node_keys(n):
        """option keys mentioned by this node itself (not by its children)"""
        from .terms import _tmpl_refs

        k = n[0]
        if k in ("opt", "optf", "optdom"):
            return {n[1]}
        if k == "tmpl":
            return {r for r in _tmpl_refs(n[1]) if not (r.startswith(":") and r.endswith(":"))}
        if k in ("switch", "overloaded") and isinstance(n[1], tuple) and n[1][0] == "optkey":
            return {n[1][1]}
        if k == "ds":
            d = dsprops(n)["dispatch"]
            if d is not None and d[0] == "optkey":
                return {d[1]}
        return set()

    @staticmethod
    def _ds_parts(t):
        from .terms import children

        return children(t)

    def _close(self, keys):
        keys = set(keys)
        changed = True
        while changed:
            changed = False
            for a in list(keys):
                for b in self.value_refs.get(a, ()):
                    if b not in keys:
                        keys.add(b)
                        changed = True
        return keys

    def _key_view(self, key, o, layers):
        """What the options say about ``key`` at a position below the given wrapper layers (outermost
        first): default layers are overlaid; a forced layer that supplies the key entirely replaces
        whatever the caller said about it; otherwise the caller's own value stands."""
        from .optspace import exists, restrict

        cur = o
        for kind, d in layers:
            if kind == "D":
                cur = overlay(d, cur)
            elif exists(d, key):
                try:
                    if lookup(overlay(cur, d), key) == lookup(d, key):
                        only = {}
                        set_path(only, key, copy.deepcopy(lookup(d, key)))
                        cur = only
                except Absent:
                    pass
        return repr(freeze(restrict(cur, {key})))

    def _proj_keys(self, keys, o, layers, acc):
        for k in self._close(keys):
            acc.add((k, self._key_view(k, o, layers)))

    def _proj(self, n, o, layers, acc):
        from .terms import children

        k = n[0]
        if k == "withopt":
            self._proj(n[1], o, layers + [("F" if n[3] else "D", n[2])], acc)
            return
        if k == "dswo":
            self._proj(n[1], o, layers + [("F", n[2])], acc)
            return
        if k == "dswdo":
            self._proj(n[1], o, layers + [("D", n[2])], acc)
            return
        if k == "ds":
            p = dsprops(n)
            if p["default_options"]:
                layers = layers + [("D", p["default_options"])]
            if p["options"]:
                layers = layers + [("F", p["options"])]
        self._proj_keys(self._node_keys(n), o, layers, acc)
        for c in children(n):
            self._proj(c, o, layers, acc)

    def _switch_ds(self, p, body, o):
        d = p["dispatch"]
        start = len(self.log)
        self._trial_enter("dispatch")
        try:
            if d[0] == "optkey":
                k = self._structural(lambda: self._option(d[1], None, o))
            else:
                k = self._structural(lambda: self.ev(d, o))
        except RefFail:
            self._trial_exit(start, False)
            if p["abstract"]:
                raise
            return body()
        self._trial_exit(start, True)
        lut = {}
        for a, x in list(p["overloads"]) + list(p["late_overloads"]):
            lut[a] = x
        if k in lut:
            return self.ev(lut[k], o)
        if p["abstract"]:
            raise self._nobranch()
        return body()

    def ev_ds(self, t, o):
        return self._dataset(t, o)

    def ev_dsref(self, t, o):
        return self._dataset(self._named[t[1]], o)

    def ev_dswo(self, t, o):
        base, Ps, Ds = t, [], []
        return self._derived(t, o)

    ev_dswdo = ev_dswo

    def _derived(self, t, o):
        # unwind a chain of with_options / with_default_options down to the dataset
        P, D = {}, {}
        chain = []
        cur = t
        while cur[0] in ("dswo", "dswdo"):
            chain.append(cur)
            cur = cur[1]
        if cur[0] == "dsref":
            cur = self._named[cur[1]]
        for c in reversed(chain):  # innermost (applied first) to outermost
            if c[0] == "dswo":
                P = overlay(c[2], P)  # nested pre-setting: the inner (earlier) one wins
            else:
                D = overlay(D, c[2])
        return self._dataset(cur, o, extra_P=P, extra_D=D)

    def ev_helper(self, t, o):
        raise RefFail("unsupported", "helper")
