"""Programs as data.

A term is a python literal (nested tuples / lists / dicts / scalars), so that it
can be printed into a replay file and read back with ast.literal_eval.  The
first element of a tuple names the constructor.  See build.py (term -> real
labrea objects) and ref.py (term -> reference semantics).

Leaves
  ('val', v)                         Value(v)
  ('raw', v)                         the plain python constant v, in a position that accepts MaybeEvaluatable
  ('opt', key)                       Option(key)
  ('opt', key, D)                    Option(key, default=D)       D a term; ('tmpl', s, {}) is passed as str
  ('optf', key, v)                   Option(key, default_factory=lambda: v)
  ('optdom', key, D|None, dom)       Option(key, D, domain=dom)   dom = ('vals', [...]) | ('pred', name) | ('term', T)
  ('all',)                           AllOptions
  ('tmpl', s, {p: T})                Template(s, **params)
Combinators
  ('apply', X, F)                    X >> F
  ('bind', X, [(v, T)...], T|None)   X.bind(lambda v: table.get(v, default))
  ('switch', D, [(k, T)...], T|None)
  ('case', D, [(C, T)...], T|None)   C a function term
  ('coalesce', [T...])
  ('iter', [T...]) ('list', [T...]) ('tuple', [T...]) ('set', [T...]) ('dict', [(k, T)...])
  ('map', X, [(key, IT)...])  ('mapvalues', X, [(key, IT)...])
  ('fa', fname, [T...], {kw: T})     FunctionApplication
  ('withopt', X, P, force)
  ('cached', X, cid)
  ('overloaded', D, [(k, T)...], T|None)
  ('computation', X, [ename...])     Computation(X, ChainedEffect(CallbackEffect...))
  ('logged', X)
Datasets
  ('ds', name, props)                props: see DS_DEFAULTS.  Same name = same object within one build.
  ('dswo', DS, P) ('dswdo', DS, D)   ds.with_options(P) / ds.with_default_options(D)
Function terms (evaluate to callables)
  ('fn', name)                       plain python callable (tagger or predicate)
  ('pa', fname, [T...], {kw: T})     PartialApplication
  ('falift', fname, {kw: T})         FunctionApplication.lift(def f(a=<sig a>, b=<sig b>, c=<sig c>), **kw)
  ('palift', fname, {kw: T})         PartialApplication.lift(def f(x, b=<sig b>, c=<sig c>), **kw)   (a function term)
  ('step', fname, {param: T})        @pipeline_step def fname(x, **params)
  ('pipe', [F...])                   Pipeline() + F1 + F2 ...
  ('helper', name, [T...])           labrea.functions.<name>(*args)
"""

DS_DEFAULTS = {
    "params": [],  # list of terms: positional-by-name parameters p0, p1, ...
    "cache": "mem",  # 'mem' | 'none' | 'stored_factory' (defined through one stored dataset(cache=MemoryCache) factory)
    "callback": None,  # function term
    "effects": [],  # effect names
    "dispatch": None,  # term, or ('optkey', key) to pass the key as a plain string
    "overloads": [],  # [(alias, term)]
    "late_overloads": [],  # [(alias, term)] registered on the dataset after the WHOLE term has been built
    "options": None,  # pre-set options P
    "default_options": None,  # default options D
    "abstract": False,
    "definition": None,  # a term: the dataset is defined from this Evaluatable instead of a body function (no params)
    "factory": "single",  # 'single': dataset(body, **kw) | 'chain': one factory call per keyword / effect, then the body
}


def val(v):
    return ("val", v)


def opt(key, default=None):
    return ("opt", key) if default is None else ("opt", key, default)


def tmpl(s, **params):
    return ("tmpl", s, dict(params))


def ds(name, *params, **props):
    p = {"params": list(params)}
    p.update(props)
    return ("ds", name, p)


def dsprops(t):
    p = dict(DS_DEFAULTS)
    p.update(t[2])
    return p


def apply(x, f):
    return ("apply", x, f if isinstance(f, tuple) else ("fn", f))


def fn(name):
    return ("fn", name)


def key(term):
    return repr(term)


def children(t):
    """Direct sub-terms (for static analyses: mentioned keys, node classes)."""
    k = t[0]
    if k in ("val", "raw", "all", "fn", "optf"):
        return []
    if k == "opt":
        return [t[2]] if len(t) > 2 else []
    if k == "optdom":
        out = [t[2]] if t[2] is not None else []
        if t[3][0] == "term":
            out.append(t[3][1])
        return out
    if k == "tmpl":
        return list(t[2].values())
    if k == "apply":
        return [t[1], t[2]]
    if k == "bind":
        return [t[1]] + [x for _, x in t[2]] + ([t[3]] if t[3] is not None else [])
    if k in ("switch", "overloaded"):
        d = [] if (isinstance(t[1], tuple) and t[1][0] == "optkey") else [t[1]]
        return d + [x for _, x in t[2]] + ([t[3]] if t[3] is not None else [])
    if k == "case":
        out = [t[1]]
        for c, x in t[2]:
            out += [c, x]
        return out + ([t[3]] if t[3] is not None else [])
    if k in ("coalesce", "iter", "list", "tuple", "set", "pipe"):
        return list(t[1])
    if k == "dict":
        return [x for _, x in t[1]]
    if k in ("map", "mapvalues"):
        return [t[1]] + [x for _, x in t[2]]
    if k in ("fa", "pa"):
        return list(t[2]) + list(t[3].values())
    if k in ("step", "falift", "palift"):
        return list(t[2].values())
    if k == "helper":
        return [x for x in t[2] if isinstance(x, tuple)]
    if k in ("withopt", "cached", "computation", "logged", "dswo", "dswdo"):
        return [t[1]]
    if k == "dsref":
        return []  # ("dsref", name): the dataset of that name defined elsewhere in the same build (self-references)
    if k == "ds":
        p = dsprops(t)
        out = list(p["params"])
        if p["definition"] is not None:
            out.append(p["definition"])
        if p["callback"] is not None:
            out.append(p["callback"])
        if p["dispatch"] is not None and p["dispatch"][0] != "optkey":
            out.append(p["dispatch"])
        out += [x for _, x in p["overloads"]]
        out += [x for _, x in p["late_overloads"]]
        return out
    raise ValueError(f"unknown term {t!r}")


def walk(t):
    yield t
    for c in children(t):
        yield from walk(c)


def _tmpl_refs(s):
    out = []
    i = 0
    while i < len(s):
        c = s[i]
        if c == "\\" and i + 1 < len(s):
            i += 2
            continue
        if c == "{":
            j = s.find("}", i)
            if j < 0:
                break
            out.append(s[i + 1 : j])
            i = j + 1
            continue
        i += 1
    return out


def mentioned_keys(t):
    """Option keys syntactically mentioned by the term (not through values)."""
    out = set()
    for n in walk(t):
        if n[0] in ("opt", "optf", "optdom"):
            out.add(n[1])
        elif n[0] == "tmpl":
            out.update(r for r in _tmpl_refs(n[1]) if not (r.startswith(":") and r.endswith(":")))
        elif n[0] in ("switch", "overloaded") and isinstance(n[1], tuple) and n[1][0] == "optkey":
            out.add(n[1][1])
        elif n[0] == "ds":
            d = dsprops(n)["dispatch"]
            if d is not None and d[0] == "optkey":
                out.add(d[1])
    return out


def dataset_names(t):
    out = []
    for n in walk(t):
        if n[0] == "ds" and n[1] not in out:
            out.append(n[1])
    return out


def structural_subterms(t):
    """Sub-terms whose value is needed to choose a branch (dispatches, bind sources, case
    dispatches and conditions, Map iterables), anywhere in the term."""
    out = []
    for n in walk(t):
        k = n[0]
        if k in ("switch", "overloaded"):
            if not (isinstance(n[1], tuple) and n[1][0] == "optkey"):
                out.append(n[1])
        elif k == "bind":
            out.append(n[1])
        elif k == "case":
            out.append(n[1])
            out.extend(c for c, _ in n[2])
        elif k in ("map", "mapvalues"):
            out.extend(x for _, x in n[2])
        elif k == "ds":
            d = dsprops(n)["dispatch"]
            if d is not None and d[0] != "optkey":
                out.append(d)
    return out
